#!/venv/bin/python
"""f19_census.py [--n N] [--seed S]
Census for finding F19 on the tree under test: is a native sliding-window REDUCTION directly over a
policy-dependent elementwise node (operands with different chunkings) sensitive to a unify-chunks
policy/limit flip between construction and computation?  Generates N structured C09 cases
(two differently chunked sources -> binary -> window+reduce; history: policy/limit A, build [inspect],
[drop, rebuild], policy/limit B, compute) and reports how many violate C09."""
import argparse, collections, json, os, random, sys
sys.path.insert(0, os.path.dirname(os.path.dirname(os.path.abspath(__file__))))
from dst import driver

POL = ["auto", "coarse", "refine"]
LIM = [None, "16B", "32B", "64B", "1KiB"]


def chunking(rng, n, style):
    if style == "one":
        return [n]
    k = {"fine": rng.choice([1, 2]), "coarse": rng.choice([3, 4, 5])}.get(style) or rng.randint(1, n)
    k = min(k, n)
    out = [k] * (n // k) + ([n % k] if n % k else [])
    if style == "shift" and len(out) > 1:
        out = [1] + out[:-1] + [out[-1] - 1] if out[-1] > 1 else out
        out = [c for c in out if c > 0]
    return out


def mkcase(rng, consumer):
    nd = rng.choice([1, 2])
    shape = [rng.choice([6, 8]) for _ in range(nd)]
    srcs, steps = {}, []
    for i in range(2):
        srcs[f"s{i}"] = {"shape": shape, "dtype": rng.choice(["f8", "f8", "i8", "f4"]), "offset": 3 + 11 * i, "kind": "ndarray"}
        ch = [chunking(rng, n, rng.choice(["fine", "coarse", "shift", "one", "rand"])) for n in shape]
        steps.append({"op": "from_array", "in": [], "args": {"src": f"s{i}", "chunks": ch}, "out": f"v{i}"})
    steps.append({"op": "binary", "in": ["v0", "v1"], "args": {"f": rng.choice(["add", "mul", "maximum", "sub"])}, "out": "v2"})
    ax = rng.randrange(nd)
    w = rng.randint(2, min(4, shape[ax]))
    if consumer == "window":
        steps.append({"op": "window", "in": ["v2"], "args": {"axis": ax, "w": w, "reduce": rng.choice(["mean", "sum", "max", "min", "std"])}, "out": "v3"})
    elif consumer == "roll":
        steps.append({"op": "flip_roll", "in": ["v2"], "args": {"kind": "roll", "axis": ax, "shift": rng.choice([-3, -1, 2])}, "out": "v3"})
    else:
        raise SystemExit("unknown consumer")
    hist = [{"ev": "config", "key": "array.unify-chunks-policy", "value": rng.choice(POL)}]
    if rng.random() < 0.6:
        hist.append({"ev": "config", "key": "array.unify-chunks-limit", "value": rng.choice(LIM)})
    hist.append({"ev": "build", "var": "v3"})
    if rng.random() < 0.5:
        hist.append({"ev": "inspect", "var": "v3", "acc": ["chunks", "shape"]})
    if rng.random() < 0.3:
        hist += [{"ev": "build", "var": "v2"}, {"ev": "inspect", "var": "v2", "acc": ["chunks"]}]
    if rng.random() < 0.3:
        hist += [{"ev": "drop", "var": "v3"}, {"ev": "gc"}]
    hist.append({"ev": "config", "key": "array.unify-chunks-policy", "value": rng.choice(POL)})
    if rng.random() < 0.6:
        hist.append({"ev": "config", "key": "array.unify-chunks-limit", "value": rng.choice(LIM)})
    if rng.random() < 0.4:
        hist.append({"ev": "build", "var": "v3", "force": rng.random() < 0.5})
    hist.append({"ev": "compute", "var": "v3", "policy": "fifo", "sseed": 0, "release": False})
    if rng.random() < 0.3:
        hist.append({"ev": "persist", "var": "v3", "out": "p1", "policy": "fifo", "sseed": 0, "release": False})
        hist.append({"ev": "compute", "var": "p1", "policy": "fifo", "sseed": 0, "release": False})
    return {"recipe": {"sources": srcs, "generators": {}, "steps": steps}, "targets": ["v3"], "history": hist, "seed": rng.getrandbits(40)}


ap = argparse.ArgumentParser()
ap.add_argument("--n", type=int, default=3000); ap.add_argument("--seed", type=int, default=1)
ap.add_argument("--consumer", default="window")
a = ap.parse_args()
rng = random.Random(a.seed)
cases = [mkcase(rng, a.consumer) for _ in range(a.n)]
pool = driver.Pool(16, a.seed)
try:
    res = pool.map(({"cmd": "replay", "prop": "C09", "case": c} for c in cases), timeout=300)
finally:
    pool.close()
cnt = collections.Counter((r.get("status"), r.get("cls")) for r in res)
print(a.consumer, dict(cnt))
for r in [r for r in res if r.get("status") == "violation"][:3]:
    print("  ", r.get("cls"), str(r.get("detail"))[:300])
    print("     ", json.dumps(r["_job"]["case"]["recipe"]["steps"])[:600])
    print("     ", json.dumps(r["_job"]["case"]["history"])[:600])
