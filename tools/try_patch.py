#!/venv/bin/python
"""try_patch.py <PROP[,PROP]> <patch.diff> [--wall S] [--runs N] [--tier T] [--seed N]
Run our check(s) against a scratch copy of /repo with the patch applied; print the summary."""
import argparse, os, sys
sys.path.insert(0, os.path.dirname(os.path.dirname(os.path.abspath(__file__))))
from dst import selftest, driver

ap = argparse.ArgumentParser()
ap.add_argument("props"); ap.add_argument("patch")
ap.add_argument("--wall", type=float); ap.add_argument("--runs", type=int)
ap.add_argument("--tier", default="quick"); ap.add_argument("--seed", type=int, default=driver.DEFAULT_SEED)
a = ap.parse_args()
for p in a.props.split(","):
    rc, out = selftest.run_on_patch(p, a.patch, a.tier, runs=a.runs, seed=a.seed, wall=a.wall)
    lines = out.splitlines()
    cls = [ln.strip()[:400] for ln in lines if ln.strip().startswith("class=")][:3]
    known = [ln[:200] for ln in lines if ln.startswith("KNOWN-FINDING")]
    summ = [ln for ln in lines if f" {a.tier}: runs=" in ln or "HARNESS" in ln][-1:]
    print(p, "rc", rc, "nviol", sum(1 for ln in lines if ln.startswith("VIOLATION")))
    for c in cls + known + summ:
        print("   ", c)
