#!/usr/bin/env python3
"""mkmutant.py <name> <property> <what> -- <file> <old> <new> [<file> <old> <new> ...]
Creates /verif/mutants/<name>/{patch.diff,meta.json} by exact string replacement in a scratch copy."""
import json, os, shutil, subprocess, sys, tempfile
name, prop, what = sys.argv[1:4]
assert sys.argv[4] == "--"
trip = sys.argv[5:]
scratch = tempfile.mkdtemp(prefix="mkmut-", dir="/tmp")
try:
    shutil.copytree("/repo/dask_array", scratch + "/a/dask_array", ignore=shutil.ignore_patterns("__pycache__"))
    shutil.copytree("/repo/dask_array", scratch + "/b/dask_array", ignore=shutil.ignore_patterns("__pycache__"))
    for i in range(0, len(trip), 3):
        f, old, new = trip[i:i+3]
        p = scratch + "/b/" + f
        s = open(p).read()
        assert s.count(old) == 1, (f, old, s.count(old))
        open(p, "w").write(s.replace(old, new))
    r = subprocess.run(["diff", "-ruN", "a", "b"], cwd=scratch, capture_output=True, text=True)
    d = os.path.join("/verif/mutants", name)
    os.makedirs(d, exist_ok=True)
    open(d + "/patch.diff", "w").write(r.stdout)
    json.dump({"property": prop, "what": what, "origin": "hand-written sensitivity mutant"}, open(d + "/meta.json", "w"), indent=1)
    print(r.stdout)
finally:
    shutil.rmtree(scratch)
