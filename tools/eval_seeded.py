#!/venv/bin/python
"""eval_seeded.py <PROP> <agent_worktree> [name]

Confirm an independently written breaking change and run our checks against it:
 1. copy patch.diff / demo.py / notes.md from <agent_worktree>/_seeded to /verif/seeded/<name>/
 2. demo passes on /repo, fails on a scratch copy of /repo with the patch applied
 3. the existing test suite passes in the agent's worktree (serial re-run of xarray tests if -n 8 flakes)
 4. run the property's quick (and, if missed, thorough-lite) check against the patched copy
 5. write meta.json
"""

import json
import os
import shutil
import subprocess
import sys

sys.path.insert(0, os.path.dirname(os.path.dirname(os.path.abspath(__file__))))
from dst import selftest  # noqa: E402

PY = "/venv/bin/python"


def run(cmd, env=None, cwd=None, timeout=1800):
    r = subprocess.run(cmd, capture_output=True, text=True, env=env, cwd=cwd, timeout=timeout)
    return r.returncode, (r.stdout + r.stderr)


def main():
    prop, wt = sys.argv[1], sys.argv[2]
    name = sys.argv[3] if len(sys.argv) > 3 else prop
    src = os.path.join(wt, "_seeded")
    dst = os.path.join("/verif/seeded", name)
    os.makedirs(dst, exist_ok=True)
    for f in ("patch.diff", "demo.py", "notes.md"):
        shutil.copy(os.path.join(src, f), os.path.join(dst, f))
    patch = os.path.join(dst, "patch.diff")
    meta = {"property": prop, "origin": "independent sub-agent given only the property text and a scratch worktree"}
    # 2. demo
    env = dict(os.environ, PYTHONPATH="/repo", PYTHONDONTWRITEBYTECODE="1")
    rc0, out0 = run([PY, os.path.join(dst, "demo.py")], env=env, cwd="/tmp")
    scratch = selftest.apply_patch_scratch(patch)
    try:
        env = dict(os.environ, PYTHONPATH=scratch, PYTHONDONTWRITEBYTECODE="1")
        rc1, out1 = run([PY, os.path.join(dst, "demo.py")], env=env, cwd="/tmp")
    finally:
        shutil.rmtree(scratch, ignore_errors=True)
    meta["demo_on_repo"] = {"rc": rc0, "tail": out0.strip().splitlines()[-2:]}
    meta["demo_on_patch"] = {"rc": rc1, "tail": out1.strip().splitlines()[-3:]}
    # 3. test suite in the agent's worktree
    rc, out = run([PY, "-m", "pytest", "-q", "-p", "no:cacheprovider", "--timeout=900", "-n", "8", "dask_array"], cwd=wt)
    tail = [ln for ln in out.splitlines() if "passed" in ln or "failed" in ln][-1:]
    failed = [ln for ln in out.splitlines() if ln.startswith("FAILED")]
    if failed and all("test_xarray" in ln or "test_api" in ln for ln in failed):
        rc2, out2 = run([PY, "-m", "pytest", "-q", "-p", "no:cacheprovider", "dask_array/tests/test_xarray.py",
                         "dask_array/tests/test_api.py"], cwd=wt)
        tail.append("serial xarray/api rerun: " + [ln for ln in out2.splitlines() if "passed" in ln or "failed" in ln][-1])
        rc = rc2
    meta["suite_on_patch"] = {"rc": rc, "tail": tail, "failed": failed[:5]}
    # 4. our checks
    meta["checks"] = {}
    props = sys.argv[4].split(",") if len(sys.argv) > 4 else [prop]
    for p in props:
        rc, out = selftest.run_on_patch(p, patch, "quick")
        cls = [ln.strip() for ln in out.splitlines() if ln.strip().startswith("class=")][:2]
        summ = [ln for ln in out.splitlines() if " quick: runs=" in ln or "HARNESS" in ln][-1:]
        meta["checks"][p] = {"quick_rc": rc, "first": [c[:300] for c in cls], "summary": summ}
    meta["confirmed"] = bool(rc0 == 0 and rc1 != 0 and meta["suite_on_patch"]["rc"] == 0)
    meta["caught_by_quick"] = any(v["quick_rc"] == 1 for v in meta["checks"].values())
    notes = open(os.path.join(dst, "notes.md")).read()
    meta["needs"] = notes[:1200]
    with open(os.path.join(dst, "meta.json"), "w") as f:
        json.dump(meta, f, indent=1)
    print(json.dumps({k: meta[k] for k in ("property", "confirmed", "caught_by_quick", "demo_on_repo", "demo_on_patch", "suite_on_patch", "checks")}, indent=1)[:3000])


if __name__ == "__main__":
    main()
