#!/venv/bin/python
"""finding_survey.py PROP FINDING --seed S --runs N [--budget B]
Run PROP's quick-tier generator for N runs, keep the violating runs that match known finding FINDING,
shrink each (class-preserving) and print the op structure of the minimised recipes: which op kinds sit
between the trigger and the target.  Used to state a finding's precondition from its mechanism."""
import argparse, collections, json, os, sys
sys.path.insert(0, os.path.dirname(os.path.dirname(os.path.abspath(__file__))))
from dst import driver

ap = argparse.ArgumentParser()
ap.add_argument("prop"); ap.add_argument("finding")
ap.add_argument("--seed", type=int, default=1); ap.add_argument("--runs", type=int, default=5000)
ap.add_argument("--budget", type=int, default=150); ap.add_argument("--out", default="/tmp/survey.jsonl")
a = ap.parse_args()
prop = a.prop.upper()
pool = driver.Pool(16, a.seed)
try:
    seeds = [driver.derive(a.seed, prop, i) % (2**53) for i in range(a.runs)]
    res = pool.map(({"cmd": "run", "prop": prop, "seed": s, "tier": "quick"} for s in seeds), timeout=300)
    viols = [r for r in res if r.get("status") == "violation"]
    print("runs", len(res), "violations", len(viols), file=sys.stderr)
    findings = [f for f in driver.known_findings() if f.get("property") == prop and f.get("status") != "fixed"]
    mm = pool.map(({"cmd": "match", "prop": prop, "case": r["case"], "result": driver._slim(r), "findings": findings} for r in viols), timeout=900)
    by_seed = {m_["_job"]["case"].get("seed"): m_.get("matches", []) for m_ in mm}
    sel = [r for r in viols if a.finding in by_seed.get(r["case"].get("seed"), [])]
    print("matched", a.finding, len(sel), "unmatched", sum(1 for r in viols if not by_seed.get(r["case"].get("seed"))), file=sys.stderr)
    shr = pool.map(({"cmd": "shrink", "prop": prop, "case": r["case"], "cls": r["cls"], "budget": a.budget} for r in sel), timeout=1200)
finally:
    pool.close()
with open(a.out, "a") as f:
    for s in shr:
        c = s.get("case") or s["_job"]["case"]
        f.write(json.dumps({"seed": c.get("seed"), "cls": s.get("cls"), "detail": str(s.get("detail"))[:300], "case": c}, default=str) + "\n")
print("wrote", len(shr), "to", a.out, file=sys.stderr)
