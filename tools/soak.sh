#!/bin/bash
# soak.sh "<seeds>" [tier] [props]: run every claimed check's tier under several master seeds (no evidence
# written); print one line per check and every VIOLATION / HARNESS-ERROR line.  Exit 1 if any check alarms.
seeds=${1:-"1 2 3"}; tier=${2:-quick}; props=${3:-"C05 C06 C07 C09 C10 C11 C17 C21 C23 C24 C25 C26 C29"}
bad=0
for s in $seeds; do
  for p in $props; do
    out=$(VERIF_SEED=$s ./check $p --tier $tier --no-evidence 2>&1); rc=$?
    echo "seed=$s $(echo "$out" | grep " $tier: runs=" | tail -1) rc=$rc"
    if [ $rc -ne 0 ]; then bad=1; echo "$out" | grep -E "^(VIOLATION|HARNESS|  class=)" | head -6; fi
  done
done
exit $bad
