#!/usr/bin/env python3
"""Regenerate MANIFEST.json from the tables below (single source of truth)."""

import json
import os

ROOT = os.path.dirname(os.path.dirname(os.path.abspath(__file__)))

NA = {
    "C01": "pure function of (program, inputs, chunking): no schedule, history, fault or external party in the statement; deciding it is differential input testing, not simulation",
    "C02": "pure function of one expression tree (a shared subtree is part of the program, not a history); differential testing of rewrites, not simulation",
    "C03": "pure per program: advertised metadata vs produced blocks is the same under every schedule and history",
    "C04": "a dangling key or cycle is the same under every schedule; one static pass per program decides it (schedsim only needs closure as a precondition)",
    "C08": "fixpoint termination and idempotence are functions of one expression; no schedule, clock or fault to vary",
    "C12": "pure function of (index, shape, chunks)",
    "C13": "pure integer arithmetic on slices",
    "C14": "pure per program; its history/config facet is covered under C09 and pushed reads under C24",
    "C15": "pure function of chunkings and explicit parameters",
    "C16": "pure function of (spec, shape, dtype, limit)",
    "C18": "pure per program; its configuration facet (split_every from config) is exercised by C09's value check",
    "C19": "pure functions of the input array and window/scan parameters",
    "C20": "pure per program: block_info/block_id observed by the user function do not depend on schedule or history",
    "C22": "pure translation parity, and the Rust extension dask_array._rust is not built in this image: nothing for a scheduler or fault to vary",
    "C27": "pure arithmetic on chunk tuples",
    "C28": "pure per program; the one stateful part (compute_chunk_sizes mutating x in place) is checked under C11",
}

TB = ("Trusted: the harness (seeded scheduler, fakes, recipe interpreter, oracles), NumPy, dask core; "
      "sampled programs (<= 8 per axis, <= 64 blocks); NumPy C calls atomic. ")

CLAIMS = {
    # id: (engine, category, technique, text, note, design_ref)
    "C05": ("histsim", "exploration",
            "deterministic simulation: seeded entry-point histories (compute/persist/optimize/to_delayed) with drop/gc/evict/crash faults and an in-place tail, pristine oracle",
            "Seeded search over sequences of entry points applied to one program and to the collections they return, under a simulated scheduler (runs may be crashed before their k-th task and asked again); every entry point must give x.compute()'s value, persisted/dask-optimized collections must keep name/chunks/dtype/keys, follow-ons must agree; in the in-place tail x's memos are warmed, x is modified in place and every entry point is compared with x.compute() of the modified x. Sampling, not proof.",
            TB + "Known findings F2b (dask.persist on a raw expression whose rewrite changes the root block grid; sole explanation only of its documented loud errors), F20 and F28 (masked sources under optimize-graph=False), each matched by precondition + ablation.", "DESIGN.md 5/C05"),
    "C06": ("histsim", "exploration",
            "deterministic simulation: seeded build/persist/drop/gc/config histories with per-process name and graph-key registries",
            "Seeded search over histories of several programs sharing subtrees; after every step all node names seen in the process must agree on (chunks, dtype), all graph keys on their values, merged computes on separate ones. Sampling, not proof.",
            TB + "Known findings F15 (Blockwise advertised chunks depend on the unify policy while the name does not), F2b (dask.persist on a raw expression whose rewrite changes the root grid: same key, other block shape) and F20, each matched by precondition + ablation.", "DESIGN.md 5/C06"),
    "C07": ("histsim", "exploration",
            "deterministic simulation: seeded pickle/rebuild histories + restart into a fresh interpreter under another PYTHONHASHSEED and another receiver-side configuration",
            "Seeded search over moments of serialization in a collection's life (including 'lazy' builds the harness never looks at before they are dumped); rebuilt-in-process, rebuilt-in-fresh-interpreter and unpickled collections (loaded under the sender's or another configuration) must agree on name, keys, chunks, dtype, Frisky output keys (and optimized graph keys for rebuilds) and values. Sampling, not proof.",
            TB + "lock=True sources, untokenizable sources and parents of random arrays are compared per instance only, as the statement exempts them. Known findings F12 (masked source + unpickled copy alive + in-process rebuild) and F15 (Blockwise chunks resolved under the receiver's unify policy when pickled before first read), matched by precondition + ablation.", "DESIGN.md 5/C07"),
    "C09": ("histsim", "exploration",
            "deterministic simulation: seeded interleavings of build/compute with planner-config flips, drops, GC, cache evictions and crashed runs against a pristine oracle",
            "Seeded search over histories and configuration flips (plus two structured scenarios: layout drift under unify flips, reduction trees sized at construction over finer optimized grids); every compute must equal the value of the same program built alone under default configuration after a state reset; an operation that raises is reported only if the same kind of operation works on the same program with no history. Sampling, not proof.",
            TB + "Known findings F19 (narrowed by a census of the window-reduction family), F20, F28, each matched by precondition + ablation.", "DESIGN.md 5/C09"),
    "C10": ("schedsim", "exploration",
            "deterministic simulation: seeded task scheduler over the real graph (orders, release, copy-edges, line-granular pre-emption of 2-3 in-flight tasks) with dependency/source fingerprint monitors",
            "Seeded search over topological orders of the real task graphs of generated programs; the same graph object must give bit-identical outputs under every order, no task may change a dependency's fingerprint, user sources must be unchanged. Sampling, not proof.",
            TB + "Thread interleavings: baton-passed real threads pre-empted at Python line events inside dask_array (NumPy C calls atomic).", "DESIGN.md 5/C10"),
    "C11": ("histsim", "exploration",
            "deterministic simulation: seeded derive -> mutate -> compute histories with a NumPy model of the assignment on dask's own pre-value",
            "Seeded search over sequences of derivations, in-place assignments (all key kinds, also through live dask index/mask/value collections that are modified in place afterwards), ufunc out= and compute_chunk_sizes interleaved with computes and gc/evict/pickle faults; the target must equal the NumPy assignment, every other collection (earlier targets included) its earlier value, sources untouched. Sampling, not proof.",
            TB + "Non-elementwise user block functions are excluded from C11 programs (see DESIGN: unclaimed C01/C02 observation).", "DESIGN.md 5/C11"),
    "C17": ("histsim", "exploration",
            "deterministic simulation: seeded policy/limit flips around the shared lowering cache; layout clauses checked at every materialisation",
            "History x configuration part only: which policy's layout a materialisation gets must be the policy in effect, whatever was lowered before. The pure 'for all operand sets' core of the statement is not claimed.", 
            TB + "Only Elemwise root/nested pairs whose raw<->lowered correspondence is positional are checked; others are skipped and counted. Known finding F19 (expression constructed under one unify-chunks policy/limit and materialised under another) matched by a fresh-rebuild ablation that keeps the flips and the lowering cache.", "DESIGN.md 5/C17"),
    "C21": ("schedsim", "exploration",
            "deterministic simulation: records executor over every walk order of the shared seen set, seeded execution orders",
            "For groups of 1-4 collections every permutation of walk order (exhaustive per group) and both protocols, optionally after a first submission and an in-place update of a member; records must be well-formed, complete, define every output key, hold the collection's i-th block under its i-th output key and execute to the dask graph's block values. Groups and programs are sampled.",
            TB + "No _rust extension here: every node takes the pure-Python record paths (GraphRecordsLayer, FusedBlockwiseLayer fast/slow records); binary chunks are out of reach.", "DESIGN.md 5/C21"),
    "C23": ("histsim", "exploration",
            "deterministic simulation: seeded histories over random arrays (repeated computes, optimize, pickle, drop+rebuild) with a from_array(value(R)) substitution oracle",
            "Seeded search over histories of random arrays (five bit generator kinds, RandomState, module-level state; twins with equal seeds) and derived programs; same bits on every compute, derived programs computed from that realization, rebuild equals the pristine realization. Sampling, not proof.",
            TB, "DESIGN.md 5/C23"),
    "C24": ("schedsim", "fault_enumeration",
            "deterministic simulation with fault injection: recording (eager and lazy) source/lock fakes, seeded schedules incl. pre-emptive ones with lock contention, read fault at enumerated request positions",
            "Per generated read program: fault-free runs under several schedules, one of them pre-emptive with 2-3 reads in flight contending for the lock (values == NumPy indexing, every request in bounds and under the user's lock -- for lazy sources at the moment the selection is materialised --, lock free at the end, no deadlock), then an injected read error at request positions (all of them in the thorough tier, up to 32 per program; every other one while other reads are in flight) with a correct fault-free retry.",
            TB + "ndarray sources are sliced by NumPy itself (bounds unobservable): values only.", "DESIGN.md 5/C24"),
    "C25": ("schedsim", "fault_enumeration",
            "deterministic simulation with fault injection: recording target/lock fakes with per-cell write counters (incl. shared read-modify-write targets), seeded schedules incl. pre-emptive ones, write fault at enumerated positions",
            "Per generated store: fault-free runs under several schedules, pre-emptive ones with 2-3 writes in flight (target == model, region cells written exactly once, others never, lock discipline also for the lock store makes for lock=True, no lost update on a shared read-modify-write target), then an injected write error at write positions (all in thorough, up to 32 per program) and a fault-free re-run; npy-stack round trips with the k-th np.save failing.",
            TB + "Negative region bounds are refused by store (NotImplementedError) and excluded.", "DESIGN.md 5/C25"),
    "C26": ("importsim", "exploration",
            "deterministic simulation: seeded import/registration histories, one fresh interpreter each, every dask_array module imported in every history",
            "Each history starts one fresh interpreter under a seeded start configuration (DASK_* environment) and imports every dask_array module in a seeded order with xarray, cache_clear and register() at seeded positions; a one-boolean model of xarray's 'dask' chunk manager is checked after every step; after register() a fixed set of xarray computations must match NumPy-backed ones.",
            "Trusted: xarray 2026.7.0's registry semantics; ImportError for an absent optional dependency is skipped. Orders are sampled (153! permutations).", "DESIGN.md 5/C26"),
    "C29": ("histsim", "exploration",
            "deterministic simulation: seeded inspect-only histories over recording sources and user functions; temporal invariant 'no non-empty request outside execution'",
            "Seeded search over long inspect-only histories (all accessors, simplify, optimize, graph construction, pickle, freeze_chunks) on programs over recording fakes (sources entering through from_array, with asarray=False, or as raw operands); outside an execute phase only empty selections / empty blocks may be seen; a final compute shows the history does read when executed.",
            TB + "0-d metas necessarily have one element and are not counted as non-empty blocks.", "DESIGN.md 5/C29"),
}

PENDING = {}


def main():
    props = [json.loads(l) for l in open(os.path.join(ROOT, "properties.jsonl"))]
    checks = []
    for pid, (engine, cat, tech, text, note, ref) in sorted(CLAIMS.items()):
        checks.append(
            {
                "property_id": pid,
                "quick_cmd": f"./check {pid} --tier quick",
                "thorough_cmd": f"./check {pid} --tier thorough",
                "evidence_file": f"/verif/evidence/{pid}.json",
                "replay_cmd_template": f"./check {pid} --replay {{path}}",
                "engine": engine,
                "level_claimed": {"category": cat, "text": text, "design_ref": ref},
                "level_note": note,
                "technique": tech,
            }
        )
    na = []
    for p in props:
        pid = p["id"]
        if pid in CLAIMS:
            continue
        if pid in NA:
            na.append({"property_id": pid, "reason": NA[pid]})
        else:
            na.append({"property_id": pid, "reason": PENDING.get(pid, "claimed in DESIGN.md; check not built yet at this commit (work in progress)")})
    m = {
        "version": 1,
        "setup_cmd": "/venv/bin/python -c \"import numpy, dask, dask_array; print('ok', dask_array.__file__)\"",
        "hooks": {
            "guard": "DASK_ARRAY_VERIF",
            "enable": "no hooks in /repo: every seam is an existing extension point (scheduler callable, array-like protocols, locks, dask.config, module attributes, pickle, import)",
            "baseline_off_cmd": "cd /repo && /venv/bin/python -m pytest -ra -q -p no:cacheprovider --timeout=900 --continue-on-collection-errors",
            "source_commits": [],
            "add_only": True,
        },
        "engines": [
            {"name": "schedsim", "path": "dst/schedsim.py", "serves_properties": ["C10", "C21", "C24", "C25"],
             "kind_free_text": "seeded task-graph scheduler with dependency fingerprinting and I/O fakes"},
            {"name": "histsim", "path": "dst/histsim.py", "serves_properties": ["C05", "C06", "C07", "C09", "C11", "C17", "C23", "C29"],
             "kind_free_text": "seeded history machine over public-API operations, config flips, drops/GC/evictions, pickles and restarts"},
            {"name": "importsim", "path": "dst/importsim.py", "serves_properties": ["C26"],
             "kind_free_text": "seeded import/registration histories in fresh interpreters"},
        ],
        "checks": checks,
        "not_applicable": na,
        "notes": "Technique family: deterministic simulation with fault injection. See DESIGN.md.",
    }
    with open(os.path.join(ROOT, "MANIFEST.json"), "w") as f:
        json.dump(m, f, indent=1)
    print("wrote MANIFEST.json:", len(checks), "checks,", len(na), "not applicable")


if __name__ == "__main__":
    main()
