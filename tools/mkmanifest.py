#!/usr/bin/env python3
"""Regenerate MANIFEST.json from the tables below (single source of truth)."""

import json
import os

ROOT = os.path.dirname(os.path.dirname(os.path.abspath(__file__)))

NA = {
    "C01": "pure function of (program, inputs, chunking): no schedule, history, fault or external party in the statement; deciding it is differential input testing, not simulation",
    "C02": "pure function of one expression tree (a shared subtree is part of the program, not a history); differential testing of rewrites, not simulation",
    "C03": "pure per program: advertised metadata vs produced blocks is the same under every schedule and history",
    "C04": "a dangling key or cycle is the same under every schedule; one static pass per program decides it (schedsim only needs closure as a precondition)",
    "C08": "fixpoint termination and idempotence are functions of one expression; no schedule, clock or fault to vary",
    "C12": "pure function of (index, shape, chunks)",
    "C13": "pure integer arithmetic on slices",
    "C14": "pure per program; its history/config facet is covered under C09 and pushed reads under C24",
    "C15": "pure function of chunkings and explicit parameters",
    "C16": "pure function of (spec, shape, dtype, limit)",
    "C18": "pure per program; its configuration facet (split_every from config) is exercised by C09's value check",
    "C19": "pure functions of the input array and window/scan parameters",
    "C20": "pure per program: block_info/block_id observed by the user function do not depend on schedule or history",
    "C22": "pure translation parity, and the Rust extension dask_array._rust is not built in this image: nothing for a scheduler or fault to vary",
    "C27": "pure arithmetic on chunk tuples",
    "C28": "pure per program; the one stateful part (compute_chunk_sizes mutating x in place) is checked under C11",
}

CLAIMS = {
    # id: (engine, category, technique, text, note, design_ref)
    "C10": (
        "schedsim",
        "exploration",
        "deterministic simulation: seeded task scheduler over the real graph (orders, release, copy-edges) with dependency/source fingerprint monitors",
        "Seeded search over topological orders of the real task graphs of generated programs; same graph object must give bit-identical outputs under every order, no task may change a dependency's fingerprint, user sources must be unchanged. Sampling, not proof.",
        "Trusted: the harness's scheduler and fingerprinting; NumPy C calls are atomic in the simulator; programs are sampled from a typed generator (sizes <= 8 per axis, <= 64 blocks).",
        "DESIGN.md 5/C10",
    ),
}

PENDING = {}


def main():
    props = [json.loads(l) for l in open(os.path.join(ROOT, "properties.jsonl"))]
    checks = []
    for pid, (engine, cat, tech, text, note, ref) in sorted(CLAIMS.items()):
        checks.append(
            {
                "property_id": pid,
                "quick_cmd": f"./check {pid} --tier quick",
                "thorough_cmd": f"./check {pid} --tier thorough",
                "evidence_file": f"/verif/evidence/{pid}.json",
                "replay_cmd_template": f"./check {pid} --replay {{path}}",
                "engine": engine,
                "level_claimed": {"category": cat, "text": text, "design_ref": ref},
                "level_note": note,
                "technique": tech,
            }
        )
    na = []
    for p in props:
        pid = p["id"]
        if pid in CLAIMS:
            continue
        if pid in NA:
            na.append({"property_id": pid, "reason": NA[pid]})
        else:
            na.append({"property_id": pid, "reason": PENDING.get(pid, "claimed in DESIGN.md; check not built yet at this commit (work in progress)")})
    m = {
        "version": 1,
        "setup_cmd": "/venv/bin/python -c \"import numpy, dask, dask_array; print('ok', dask_array.__file__)\"",
        "hooks": {
            "guard": "DASK_ARRAY_VERIF",
            "enable": "no hooks in /repo: every seam is an existing extension point (scheduler callable, array-like protocols, locks, dask.config, module attributes, pickle, import)",
            "baseline_off_cmd": "cd /repo && /venv/bin/python -m pytest -ra -q -p no:cacheprovider --timeout=900 --continue-on-collection-errors",
            "source_commits": [],
            "add_only": True,
        },
        "engines": [
            {"name": "schedsim", "path": "dst/schedsim.py", "serves_properties": ["C10", "C21", "C24", "C25"],
             "kind_free_text": "seeded task-graph scheduler with dependency fingerprinting and I/O fakes"},
            {"name": "histsim", "path": "dst/histsim.py", "serves_properties": ["C05", "C06", "C07", "C09", "C11", "C17", "C23", "C29"],
             "kind_free_text": "seeded history machine over public-API operations, config flips, drops/GC/evictions, pickles and restarts"},
            {"name": "importsim", "path": "dst/importsim.py", "serves_properties": ["C26"],
             "kind_free_text": "seeded import/registration histories in fresh interpreters"},
        ],
        "checks": checks,
        "not_applicable": na,
        "notes": "Technique family: deterministic simulation with fault injection. See DESIGN.md.",
    }
    with open(os.path.join(ROOT, "MANIFEST.json"), "w") as f:
        json.dump(m, f, indent=1)
    print("wrote MANIFEST.json:", len(checks), "checks,", len(na), "not applicable")


if __name__ == "__main__":
    main()
