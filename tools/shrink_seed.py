#!/venv/bin/python
"""shrink_seed.py PROP SEED [tier] -- run one seed in-process, shrink, print the minimised case."""
import sys, json, importlib, os
sys.path.insert(0, os.path.dirname(os.path.dirname(os.path.abspath(__file__))))
from dst import common
common.sut_import(); common.install_scheduler_guard()
from dst import worker
prop, seed = sys.argv[1], int(sys.argv[2])
tier = sys.argv[3] if len(sys.argv) > 3 else "quick"
m = importlib.import_module("dst.props." + prop.lower())
r = worker.run_seed(m, seed, tier)
print(r["status"], r.get("cls"), str(r.get("detail"))[:600])
if r["status"] == "violation":
    s = worker.shrink(m, r["case"], r["cls"], 400)
    print("shrunk after", s.get("shrink_tried"), ":", s["status"], s.get("cls"), str(s.get("detail"))[:1200])
    c = s["case"]
    print(json.dumps({k: v for k, v in c.items() if k not in ("recipe",)}, default=str))
    print(json.dumps(c.get("recipe"), default=str))
