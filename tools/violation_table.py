#!/venv/bin/python
"""violation_table.py PROP [--seed S] [--runs N]: run, match known findings, tabulate (matched finding, class, message signature)."""
import argparse, collections, json, os, re, sys
sys.path.insert(0, os.path.dirname(os.path.dirname(os.path.abspath(__file__))))
from dst import driver
ap = argparse.ArgumentParser(); ap.add_argument("prop"); ap.add_argument("--seed", type=int, default=driver.DEFAULT_SEED); ap.add_argument("--runs", type=int, default=2400)
a = ap.parse_args(); prop = a.prop.upper()
pool = driver.Pool(16, a.seed)
try:
    seeds = [driver.derive(a.seed, prop, i) % (2**53) for i in range(a.runs)]
    res = pool.map(({"cmd": "run", "prop": prop, "seed": s, "tier": "quick"} for s in seeds), timeout=300)
    viols = [r for r in res if r.get("status") == "violation"]
    findings = [f for f in driver.known_findings() if f.get("property") == prop and f.get("status") != "fixed"]
    mm = pool.map(({"cmd": "match", "prop": prop, "case": r["case"], "result": driver._slim(r), "findings": findings} for r in viols), timeout=900)
finally:
    pool.close()
by_seed = {m_["_job"]["case"].get("seed"): tuple(m_.get("matches", [])) for m_ in mm}
tab = collections.Counter()
def sig(d):
    d = re.sub(r"[0-9a-f]{16,}", "#", str(d)); d = re.sub(r"event \d+", "event N", d); d = re.sub(r"\b[vpdfo]\d+\b", "V", d); d = re.sub(r"\d+", "N", d)
    m = re.search(r"raised (\w+: .{0,70})", d)
    return m.group(1) if m else d[:90]
for r in viols:
    tab[(by_seed.get(r["case"].get("seed")), r["cls"], sig(r.get("detail")))] += 1
for k, n in sorted(tab.items(), key=lambda kv: -kv[1]):
    print(n, k)
