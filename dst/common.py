"""Shared pieces of the deterministic-simulation harness: seeds, fingerprints,
comparison policy, reset protocol, outcome classification.

Nothing in here draws from a PRNG in a logging path or reads a clock.
"""

from __future__ import annotations

import copy
import gc
import hashlib
import json
import math
import os
import re
import sys

import numpy as np

REPO = os.environ.get("VERIF_REPO", "/repo")


class HarnessError(Exception):
    """A failure of the harness itself (never reported as a property violation)."""


class Violation(Exception):
    def __init__(self, prop, cls, detail, step=None, info=None):
        super().__init__(f"{prop}:{cls}: {detail}")
        self.prop = prop
        self.cls = cls
        self.detail = detail
        self.step = step
        self.info = info or {}


class UnexecutableGraph(Exception):
    """The graph handed to the simulated scheduler is not closed/acyclic: no order can run it
    (what a real scheduler reports as 'Missing dependency')."""


class Invalid(Exception):
    """The generated/shrunk case cannot be built; discarded, never reported."""


# --------------------------------------------------------------------------- seeds


def derive(*parts) -> int:
    h = hashlib.sha256("/".join(str(p) for p in parts).encode()).digest()
    return int.from_bytes(h[:8], "big")


def digest(obj) -> str:
    return hashlib.sha256(json.dumps(obj, sort_keys=True, default=str).encode()).hexdigest()[:16]


_UUID_RE = re.compile(r"[0-9a-f]{32}|[0-9a-f]{8}-[0-9a-f]{4}-[0-9a-f]{4}-[0-9a-f]{4}-[0-9a-f]{12}")


def norm_name(s):
    """Names only ever enter logs through this: tokens are hashes of content and so
    stable, but we still never let an id()/uuid into a digest."""
    return s


# --------------------------------------------------------------------------- fingerprints


def fp(v):
    """Digest of an array-like value (dtype, shape, bytes); None for opaque objects."""
    h = hashlib.sha256()
    if not _fp_into(h, v):
        return None
    return h.hexdigest()[:16]


def _fp_into(h, v) -> bool:
    if isinstance(v, np.ma.MaskedArray):
        h.update(b"M")
        _fp_into(h, np.asarray(v.data))
        _fp_into(h, np.asarray(np.ma.getmaskarray(v)))
        return True
    if isinstance(v, np.ndarray):
        h.update(v.dtype.str.encode())
        h.update(repr(v.shape).encode())
        if v.dtype == object:
            h.update(repr(v.tolist()).encode())
        else:
            h.update(np.ascontiguousarray(v).tobytes())
        return True
    if isinstance(v, np.generic):
        return _fp_into(h, np.asarray(v))
    if isinstance(v, (bool, int, float, complex, str, bytes, type(None))):
        h.update(repr(v).encode())
        return True
    if isinstance(v, (list, tuple)):
        h.update(b"L" if isinstance(v, list) else b"T")
        ok = True
        for x in v:
            ok = _fp_into(h, x) and ok
        return ok
    if isinstance(v, dict):
        h.update(b"D")
        ok = True
        for k in sorted(v, key=repr):
            h.update(repr(k).encode())
            ok = _fp_into(h, v[k]) and ok
        return ok
    return False


def is_exact_dtype(dt) -> bool:
    return np.dtype(dt).kind in "biuSUO?"


def same_value(a, b, exact=None, rtol=1e-9):
    """Comparison policy (DESIGN 3.5). Returns None if equal else a short reason."""
    if isinstance(a, (tuple, list)) and isinstance(b, (tuple, list)):
        if len(a) != len(b):
            return f"sequence length {len(a)} != {len(b)}"
        for i, (x, y) in enumerate(zip(a, b)):
            r = same_value(x, y, exact, rtol)
            if r:
                return f"[{i}] {r}"
        return None
    if isinstance(a, dict) and isinstance(b, dict):
        if sorted(a, key=repr) != sorted(b, key=repr):
            return f"dict keys differ: {sorted(a, key=repr)} vs {sorted(b, key=repr)}"
        for k in sorted(a, key=repr):
            r = same_value(a[k], b[k], exact, rtol)
            if r:
                return f"[{k!r}] {r}"
        return None
    if isinstance(a, (dict, tuple, list)) != isinstance(b, (dict, tuple, list)):
        return f"container vs array ({type(a).__name__} vs {type(b).__name__})"
    am = isinstance(a, np.ma.MaskedArray)
    bm = isinstance(b, np.ma.MaskedArray)
    if am != bm:
        return f"maskedness differs ({type(a).__name__} vs {type(b).__name__})"
    if am:
        r = same_value(np.ma.getmaskarray(a), np.ma.getmaskarray(b), True)
        if r:
            return "mask: " + r
        m = np.ma.getmaskarray(a)
        return same_value(np.where(m, 0, np.asarray(a.data)), np.where(m, 0, np.asarray(b.data)), exact, rtol)
    a = np.asarray(a)
    b = np.asarray(b)
    if a.shape != b.shape:
        return f"shape {a.shape} != {b.shape}"
    if a.dtype != b.dtype:
        return f"dtype {a.dtype} != {b.dtype}"
    if exact is None:
        exact = is_exact_dtype(a.dtype)
    if a.dtype.kind in "biu?SUO" or exact:
        if a.dtype == object:
            ok = a.tolist() == b.tolist()
        elif a.dtype.kind in "fc":
            ok = np.array_equal(a, b, equal_nan=True)
        else:
            ok = np.array_equal(a, b)
        if ok:
            return None
        return "values differ (exact)" + _where(a, b)
    if a.dtype.kind in "fc":
        # two legitimate evaluation orders of an inexact result differ by a few units in the last place OF
        # ITS DTYPE: 1e-9 is right for float64, float32 needs its own epsilon (64 ulp)
        rtol = max(rtol, 64 * float(np.finfo(a.dtype).eps))
        with np.errstate(all="ignore"):
            fin = np.isfinite(a) & np.isfinite(b)
            scale = float(np.max(np.abs(a[fin]))) if fin.any() else 1.0
            ok = np.allclose(a, b, rtol=rtol, atol=rtol * max(scale, 1.0), equal_nan=True)
        if ok:
            return None
        return "values differ (allclose)" + _where(a, b)
    if a.dtype.kind in "mM":
        return None if np.array_equal(a, b) else "values differ (datetime)"
    if a.dtype.kind == "V":
        if a.dtype.names:
            for nm in a.dtype.names:
                r = same_value(a[nm], b[nm], exact, rtol)
                if r:
                    return f"field {nm}: {r}"
            return None
        return None if a.tobytes() == b.tobytes() else "values differ (void)"
    return None if np.array_equal(a, b) else "values differ"


def _where(a, b):
    try:
        if a.size == 0:
            return ""
        with np.errstate(all="ignore"):
            ne = ~((a == b) | ((a != a) & (b != b)))
        idx = np.argwhere(ne)
        if len(idx) == 0:
            return ""
        i = tuple(int(x) for x in idx[0])
        return f" first at {i}: {a[i]!r} vs {b[i]!r} ({len(idx)} cells)"
    except Exception:
        return ""


def chunks_eq(a, b):
    if len(a) != len(b):
        return False
    for da_, db in zip(a, b):
        if len(da_) != len(db):
            return False
        for x, y in zip(da_, db):
            if not (x == y or (_isnan(x) and _isnan(y))):
                return False
    return True


def _isnan(x):
    try:
        return math.isnan(x)
    except TypeError:
        return False


def chunks_json(chunks):
    return [[(None if _isnan(c) else int(c)) for c in dim] for dim in chunks]


# --------------------------------------------------------------------------- reset protocol

_BASE = {}


def sut_import():
    """Import the system under test from /repo (editable install) and snapshot start state."""
    import dask
    import dask.config

    import dask_array  # noqa: F401

    # Determinism: dask.layers imports legacy dask.array lazily (first overlap graph), and that
    # import re-registers process-global dispatch handlers (tokenizers, sizeof, ...).  A run's
    # behaviour must not depend on whether an earlier run in this worker computed an overlap,
    # so every worker starts in the post-import state (also a state real users reach).
    import dask.array  # noqa: F401

    src = os.path.realpath(os.path.dirname(dask_array.__file__))
    want = os.path.realpath(os.path.join(REPO, "dask_array"))
    if src != want:
        raise HarnessError(f"dask_array imported from {src}, expected {want}")
    if "config" not in _BASE:
        _BASE["config"] = copy.deepcopy(dask.config.config)
        _BASE["consts"] = _read_consts()
    return dask_array


def _read_consts():
    import dask_array._expr as e
    import dask_array.io._from_array as fa

    return {
        "slice_limit": fa._NUMPY_SLICE_PUSHDOWN_NBYTES_LIMIT,
        "merge_ratio": e._MERGE_COST_RATIO,
    }


def all_singleton_registries():
    from dask._expr import SingletonExpr

    out = []
    stack = [SingletonExpr]
    seen = set()
    while stack:
        c = stack.pop()
        if c in seen:
            continue
        seen.add(c)
        reg = c.__dict__.get("_instances")
        if reg is not None:
            out.append((c, reg))
        stack.extend(c.__subclasses__())
    out.sort(key=lambda t: (t[0].__module__, t[0].__qualname__))
    return out


def reset_sut(np_seed=0):
    """Return every piece of S2-S4 process state to the start state."""
    import dask
    import dask.config

    import dask_array as da
    import dask_array._expr as e
    import dask_array._materialize as m
    import dask_array.io._from_array as fa

    gc.enable()
    try:
        from . import gen as _g

        _g.IDENTITY[0] = "fresh"
    except Exception:  # noqa: BLE001
        pass
    m._LOWER_CACHE.clear()
    for _, reg in all_singleton_registries():
        reg.clear()
    dask.config.config.clear()
    dask.config.config.update(copy.deepcopy(_BASE["config"]))
    try:
        da.random._cached_states.clear()
    except AttributeError:
        pass
    try:
        import dask_array.random._generator as g

        for nm in ("_cached_states", "_cached_random_states"):
            d = getattr(g, nm, None)
            if isinstance(d, dict):
                d.clear()
    except Exception:
        pass
    for modname in ("dask.utils", "dask_array._core_utils", "dask_array._rechunk", "dask_array.slicing._utils"):
        mod = sys.modules.get(modname)
        if mod is None:
            continue
        for nm in dir(mod):
            f = getattr(mod, nm, None)
            cc = getattr(f, "cache_clear", None)
            if callable(cc):
                try:
                    cc()
                except Exception:
                    pass
    fa._NUMPY_SLICE_PUSHDOWN_NBYTES_LIMIT = _BASE["consts"]["slice_limit"]
    e._MERGE_COST_RATIO = _BASE["consts"]["merge_ratio"]
    np.random.seed(np_seed % (2**32))
    gc.collect()
    gc.collect()
    gc.disable()


def lower_cache():
    import dask_array._materialize as m

    return m._LOWER_CACHE


# --------------------------------------------------------------------------- real-scheduler guard

_GUARD = {"installed": False, "armed": False}


def install_scheduler_guard():
    """Any code path that silently reaches a real thread/process scheduler is a
    harness failure, never an unreproducible run."""
    if _GUARD["installed"]:
        return
    import concurrent.futures as cf

    import dask.local
    import dask.multiprocessing
    import dask.threaded

    def boom(name):
        def f(*a, **k):
            if _GUARD["armed"]:
                raise HarnessError(f"real scheduler reached: {name}")
            return orig[name](*a, **k)

        return f

    orig = {
        "threaded.get": dask.threaded.get,
        "multiprocessing.get": dask.multiprocessing.get,
        "local.get_sync": dask.local.get_sync,
        "submit": cf.ThreadPoolExecutor.submit,
    }
    dask.threaded.get = boom("threaded.get")
    dask.multiprocessing.get = boom("multiprocessing.get")
    dask.local.get_sync = boom("local.get_sync")
    import dask.base

    for k in ("threads", "threading"):
        if k in dask.base.named_schedulers:
            dask.base.named_schedulers[k] = dask.threaded.get
    for k in ("sync", "synchronous", "single-threaded"):
        if k in dask.base.named_schedulers:
            dask.base.named_schedulers[k] = dask.local.get_sync
    if "processes" in dask.base.named_schedulers:
        dask.base.named_schedulers["processes"] = dask.multiprocessing.get
    import dask_array as da

    da.Array.__dask_scheduler__ = staticmethod(boom("threaded.get"))
    _GUARD["installed"] = True
    _GUARD["armed"] = True


# --------------------------------------------------------------------------- misc


def compact(obj, limit=400):
    s = json.dumps(obj, default=str)
    return s if len(s) <= limit else s[: limit - 3] + "..."
