"""histsim: a seeded history machine over public-API operations.

A *history* is a list of JSON events applied to a pool of live collections that
share subtrees.  The machine applies each event to the real dask_array API and
lets the owning property's invariants run after every step.  Faults here are the
S2-S4/S6 events: drop, gc, evict, config flips, pickling, restart.
"""

from __future__ import annotations

import pickle as _pickle

import cloudpickle as _cloudpickle

import copy as _copy
import gc
import pickle
import random
import warnings

import numpy as np

from . import fakes
from . import gen as G
from .common import HarnessError, Invalid, Violation, chunks_json, fp, lower_cache, reset_sut, same_value
from .schedsim import Sim

CONFIG_DOMAIN = {
    "array.optimize-graph": [True, False],
    "array.rechunk.threshold": [1, 2, 4, 16, 32],
    "array.rechunk.degree-limit": [2, 4, 64],
    "array.rechunk.method": ["tasks", None],
    "array.chunk-size": ["16B", "64B", "256B", "4KiB", "128MiB"],
    "array.unify-chunks-policy": ["auto", "coarse", "refine"],
    "array.unify-chunks-limit": [None, "64B", "1KiB", "2GiB"],
    "split_every": [2, 3, 16],
}

ACCESSORS = ["shape", "chunks", "dtype", "name", "keys", "repr", "html", "len", "numblocks", "npartitions", "nbytes",
             "transfer_bytes", "pprint", "size", "ndim", "chunksize", "meta"]


def touch(x, acc):
    """Read one metadata accessor; returns a JSON-able summary (names only, no ids)."""
    if acc == "shape":
        return [None if isinstance(s, float) else int(s) for s in x.shape]
    if acc == "chunks":
        return chunks_json(x.chunks)
    if acc == "dtype":
        return str(x.dtype)
    if acc == "name":
        return x.name
    if acc == "keys":
        return len(list(_flat(x.__dask_keys__())))
    if acc == "repr":
        return len(repr(x)) > 0
    if acc == "html":
        try:
            return len(x._repr_html_()) > 0
        except Exception as e:  # noqa: BLE001 -- template/jinja optional
            return type(e).__name__
    if acc == "len":
        try:
            return len(x)
        except (TypeError, ValueError) as e:
            return type(e).__name__
    if acc == "numblocks":
        return list(x.numblocks)
    if acc == "npartitions":
        return x.npartitions
    if acc == "nbytes":
        v = x.nbytes
        return None if v != v else int(v)
    if acc == "transfer_bytes":
        tb = x.transfer_bytes
        return [float(tb[0]) if tb[0] == tb[0] else None, float(tb[1]) if tb[1] == tb[1] else None]
    if acc == "pprint":
        import contextlib
        import io

        buf = io.StringIO()
        with contextlib.redirect_stdout(buf):
            x.pprint()
        return len(buf.getvalue()) > 0
    if acc == "size":
        v = x.size
        return None if v != v else int(v)
    if acc == "ndim":
        return x.ndim
    if acc == "chunksize":
        return [None if c != c else int(c) for c in x.chunksize]
    if acc == "meta":
        return type(x._meta).__name__
    raise HarnessError(f"unknown accessor {acc}")


def _flat(keys):
    if isinstance(keys, list):
        for k in keys:
            yield from _flat(k)
    else:
        yield keys


class Machine:
    def __init__(self, case, stats, log, prop, hooks=None):
        self.case = case
        self.recipe = case["recipe"]
        self.stats = stats
        self.log = log
        self.prop = prop
        self.hooks = hooks
        self.env = G.new_env(self.recipe)
        self.pool = {}  # var -> Array
        self.origin = {}  # var -> program var whose pristine value it must equal (None if unknown)
        self.pristine = {}  # program var -> dict(value, name, chunks, dtype, error)
        self.first = {}  # var -> first computed value in this history
        self.stepno = 0
        self.by_out = {s["out"]: s for s in self.recipe["steps"]}
        self.config_history = []
        self.flips_since_lower = 0
        self.all_values = None  # set to {} to retain every key's value (C06)
        self._volatile_names = None
        self.blobs = {}

    def bump(self, k, n=1):
        self.stats[k] = self.stats.get(k, 0) + n

    def nm(self, name):
        """Names enter event logs only through here: programs containing an input that is random
        per instance by design (lock=True -> fresh SerializableLock, untokenizable source ->
        uuid token) have non-reproducible names, which must not reach a digest."""
        if self._volatile_names is None:
            self._volatile_names = any(
                (s["op"] == "from_array" and (s["args"].get("lock") is True
                                               or self.recipe["sources"][s["args"]["src"]].get("tokenizable", True) is False))
                for s in self.recipe["steps"])
        return "?" if self._volatile_names else name

    def _volatile(self, var):
        """Does program ``var`` depend on an input that is random per instance by design?"""
        try:
            need = G.needed_steps(self.recipe, var)
        except Exception:  # noqa: BLE001
            return True
        for i in need:
            s = self.recipe["steps"][i]
            if s["op"] == "from_array" and (s["args"].get("lock") is True
                                            or self.recipe["sources"][s["args"]["src"]].get("tokenizable", True) is False):
                return True
        return False

    # ------------------------------------------------------------------ pristine oracle
    def pristine_phase(self, vars_, probe_kinds=False):
        """For each program variable: reset -> build only its own steps under default
        config with nothing else alive -> compute under canonical FIFO -> record."""
        for v in vars_:
            if v in self.pristine:
                continue
            reset_sut(self.case.get("seed", 0))
            fakes.set_phase("build")
            env = G.new_env(self.recipe)
            rec = {"error": None}
            try:
                need = G.needed_steps(self.recipe, v)
                need = self._with_generator_groups(need)
                for i in need:
                    G.apply_step(env, self.recipe["steps"][i])
                x = env.vars[v]
                rec["name"] = x.name
                rec["chunks"] = x.chunks
                rec["dtype"] = x.dtype
                rec["shape"] = x.shape
                sim = Sim(random.Random(0), policy="fifo", prop=self.prop, stats={})
                with warnings.catch_warnings():
                    warnings.simplefilter("ignore")
                    rec["value"] = x.compute(scheduler=sim)
                    # which OTHER operations work on this program with no history at all: an operation
                    # that raises later in a history is history-dependent only if it works here
                    ok = {"compute", "compute_many"}
                    for kind, f in () if not probe_kinds else (("graph", lambda: x.__dask_graph__()), ("simplify", lambda: x.simplify()),
                                    ("optimize", lambda: x.optimize()),
                                    ("inspect", lambda: [touch(x, a_) for a_ in ACCESSORS]),
                                    ("persist", lambda: x.persist(scheduler=Sim(random.Random(0), policy="fifo", prop=self.prop, stats={})))):
                        try:
                            f()
                            ok.add(kind)
                        except Exception:  # noqa: BLE001
                            pass
                    if probe_kinds:
                        rec["kinds_ok"] = sorted(ok)
            except Violation:
                rec["error"] = "violation-in-pristine"
            except Exception as e:  # noqa: BLE001
                rec["error"] = f"{type(e).__name__}: {str(e)[:200]}"
            self.pristine[v] = rec
            del env
        reset_sut(self.case.get("seed", 0))
        fakes.set_phase("build")
        self.env = G.new_env(self.recipe)

    def _gen_state(self, gname):
        """The piece of generator STATE a recipe generator draws from.  default_rng/RandomState
        generators own their state; every generator of kind "module" is the one process-global
        ``da.random`` state (``da.random.seed(s)`` re-seeds it for all of them), so two recipe
        generators of that kind alias each other whatever their names and seeds."""
        spec = self.recipe.get("generators", {}).get(gname) or {}
        return "<module-global>" if spec.get("kind") == "module" else gname

    def _with_generator_groups(self, need):
        """Random arrays drawn from one generator state are built together, in program
        order, so every build of the group consumes (and re-seeds) that state identically."""
        steps = self.recipe["steps"]
        gens = {self._gen_state(steps[i]["args"]["gen"]) for i in need if steps[i]["op"] == "random"}
        if not gens:
            return need
        out = set(need)
        changed = True
        while changed:
            changed = False
            for i, s in enumerate(steps):
                if s["op"] == "random" and self._gen_state(s["args"]["gen"]) in gens and i not in out:
                    for j in G.needed_steps(self.recipe, s["out"]):
                        if j not in out:
                            out.add(j)
                            changed = True
                            if steps[j]["op"] == "random":
                                gens.add(self._gen_state(steps[j]["args"]["gen"]))
        return sorted(out)

    # ------------------------------------------------------------------ building
    def build(self, v, force=False):
        steps = self.recipe["steps"]
        need = self._with_generator_groups(G.needed_steps(self.recipe, v))
        gens = {steps[i]["args"]["gen"] for i in need if steps[i]["op"] == "random"}
        regen = set()
        if gens:
            missing = any(steps[i]["op"] == "random" and steps[i]["out"] not in self.env.vars for i in need)
            if missing or force:
                for g in gens:
                    self.env.rngs.pop(g, None)
                regen = {i for i in need if steps[i]["op"] == "random"}
                # everything downstream of a regenerated random leaf is rebuilt as well
                for i in need:
                    if any(self.by_out.get(inp) and steps.index(self.by_out[inp]) in regen for inp in steps[i]["in"]):
                        regen.add(i)
        for i in need:
            s = steps[i]
            if s["out"] in self.env.vars and i not in regen and not (force and s["out"] == v):
                continue
            out = G.apply_step(self.env, s)
            self.pool[s["out"]] = out
            self.origin[s["out"]] = s["out"]
        return self.env.vars[v]

    def derive(self, as_var, subst, out):
        """Re-apply the program step defining ``as_var`` with inputs substituted by pool vars."""
        s = self.by_out[as_var]
        o = G.OPS[s["op"]]
        ins = []
        for name in s["in"][: o.arity]:
            ins.append(self.pool[subst.get(name, name)])
        with warnings.catch_warnings():
            warnings.simplefilter("ignore")
            y = o.apply(self.env, ins, s["args"])
        self.pool[out] = y
        self.origin[out] = as_var
        return y

    # ------------------------------------------------------------------ compute
    def sim(self, ev, keep_all=False):
        return Sim(random.Random(ev.get("sseed", 0)), policy=ev.get("policy", "fifo"), release=ev.get("release", False),
                   keep_all=keep_all, prop=self.prop, stats=self.stats, fail_at=ev.get("fail_at"))

    def compute(self, x, ev, keep_all=False):
        sim = self.sim(ev, keep_all or self.all_values is not None)
        with warnings.catch_warnings():
            warnings.simplefilter("ignore")
            val = x.compute(scheduler=sim)
        self.stats["steps"] = self.stats.get("steps", 0) + sim.steps
        self.last_sim = sim
        return self.scribbled(val)

    def scribbled(self, val):
        """What compute() hands back belongs to the caller: with ``case["scribble"]`` the harness keeps a
        private copy for its oracles and then OVERWRITES the returned array in place, as a user's
        ``r += 1`` would.  Nothing a collection still holds (persisted blocks, literals in a cached
        graph, source arrays) may change because of that."""
        if not self.case.get("scribble"):
            return val
        if isinstance(val, tuple):
            # dask.compute(x, x) hands back ONE object twice: copy everything first, scribble afterwards
            keeps = tuple(v.copy() if isinstance(v, np.ndarray) else v for v in val)
            for v in val:
                self.scribbled(v)
            return keeps
        if isinstance(val, np.ndarray) and val.size and val.flags.writeable and val.dtype.kind in "biufc":
            keep = val.copy()
            try:
                if isinstance(val, np.ma.MaskedArray):
                    val.data[...] = 1
                else:
                    val[...] = 1 if val.dtype.kind != "b" else True
                self.bump("fault.result_scribbled")
            except Exception:  # noqa: BLE001
                pass
            return keep
        return val

    # ------------------------------------------------------------------ events
    def apply(self, ev):
        """Apply one event. Returns a dict describing what happened (for invariants)."""
        import dask

        self.stepno += 1
        kind = ev["ev"]
        self.bump(f"ev.{kind}")
        fakes.set_phase({"inspect": "inspect", "simplify": "optimize", "optimize": "optimize", "graph": "graph"}.get(kind, "build"))
        out = {"ev": kind}
        var = ev.get("var")
        if kind == "build":
            x = self.build(var, force=ev.get("force", False))
            out["x"] = x
        elif kind == "inspect":
            x = self.pool[var]
            out["seen"] = [self.nm(touch(x, a)) if a == "name" else touch(x, a) for a in ev["acc"]]
        elif kind == "simplify":
            x = self.pool[var]
            y = x.simplify()
            out["name"] = y.name
        elif kind == "optimize":
            x = self.pool[var]
            y = x.optimize()
            if ev.get("out"):
                self.pool[ev["out"]] = y
                self.origin[ev["out"]] = self.origin.get(var)
            out["y"] = y
        elif kind == "graph":
            x = self.pool[var]
            g = x.__dask_graph__()
            out["ntasks"] = len(g)
        elif kind == "compute":
            x = self.pool[var]
            entry = ev.get("entry", "method")
            if entry == "method":
                out["value"] = self.compute(x, ev)
            elif entry == "dask1":
                sim = self.sim(ev, self.all_values is not None)
                with warnings.catch_warnings():
                    warnings.simplefilter("ignore")
                    (out["value"],) = dask.compute(x, scheduler=sim)
                    out["value"] = self.scribbled(out["value"])
                self.stats["steps"] = self.stats.get("steps", 0) + sim.steps
                self.last_sim = sim
            elif entry == "delayed":
                sim = self.sim(ev, self.all_values is not None)
                d = x.to_delayed(optimize_graph=ev.get("og", True))
                flat = list(d.ravel()) if d.ndim else [d.item()]
                with warnings.catch_warnings():
                    warnings.simplefilter("ignore")
                    blocks = dask.compute(*flat, scheduler=sim)  # (Delayed results ARE the graph's objects: never scribbled)
                self.stats["steps"] = self.stats.get("steps", 0) + sim.steps
                self.last_sim = sim
                out["blocks"] = (d.shape, blocks)
            else:
                raise HarnessError(f"unknown entry {entry}")
        elif kind == "doptimize":
            x = self.pool[var]
            (y,) = dask.optimize(x)
            self.pool[ev["out"]] = y
            self.origin[ev["out"]] = self.origin.get(var)
            out["y"] = y
        elif kind == "compute_many":
            vs = [v for v in ev["vars"] if v in self.pool]
            sim = self.sim(ev, self.all_values is not None)
            with warnings.catch_warnings():
                warnings.simplefilter("ignore")
                vals = self.scribbled(dask.compute(*[self.pool[v] for v in vs], scheduler=sim))
            self.stats["steps"] = self.stats.get("steps", 0) + sim.steps
            self.last_sim = sim
            out["vars"] = vs
            out["values"] = vals
        elif kind == "persist":
            x = self.pool[var]
            sim = self.sim(ev)
            if ev.get("entry") == "dask":
                (p,) = dask.persist(x, scheduler=sim)
            else:
                p = x.persist(scheduler=sim)
            self.stats["steps"] = self.stats.get("steps", 0) + sim.steps
            self.pool[ev["out"]] = p
            self.origin[ev["out"]] = self.origin.get(var)
            out["p"] = p
        elif kind == "pickle":
            x = self.pool[var]
            import cloudpickle

            blob = cloudpickle.dumps(x)
            y = pickle.loads(blob)
            self.pool[ev["out"]] = y
            self.origin[ev["out"]] = self.origin.get(var)
            out["y"] = y
            out["nbytes"] = len(blob)
        elif kind == "dump":
            self.blobs[ev["slot"]] = (_cloudpickle.dumps(self.pool[var]), self.origin.get(var))
        elif kind == "load":
            if ev["slot"] in self.blobs:
                blob, org = self.blobs[ev["slot"]]
                with dask.config.set(ev.get("config") or {}):
                    y = _pickle.loads(blob)
                    _ = y.chunks, y.name  # first read under the receiver's configuration
                self.pool[ev["out"]] = y
                self.origin[ev["out"]] = org
                self.bump("fault.load_shipped_copy")
                out["y"] = y
        elif kind == "copy":
            x = self.pool[var]
            y = x.copy() if ev.get("how") == "copy" else _copy.copy(x)
            self.pool[ev["out"]] = y
            self.origin[ev["out"]] = self.origin.get(var)
        elif kind == "derive":
            out["y"] = self.derive(ev["as"], ev.get("subst", {}), ev["out"])
        elif kind == "setitem":
            x = self.pool[var]
            key = self.resolve_key(ev["key"])
            val = self.resolve_value(ev["value"], x, key)
            x[key] = val
        elif kind == "ufunc_out":
            x = self.pool[var]
            f = getattr(np, ev["ufunc"])
            ins = [self.pool[a] if isinstance(a, str) else a for a in ev["args"]]
            if ev.get("where") is not None:
                res = f(*ins, out=x, where=np.array(ev["where"], dtype=bool))
            else:
                res = f(*ins, out=x)
            out["same_object"] = res is x
        elif kind == "compute_chunk_sizes":
            x = self.pool[var]
            sim = self.sim(ev)
            import dask as _dask

            with _dask.config.set(scheduler=sim):
                x.compute_chunk_sizes()
            self.stats["steps"] = self.stats.get("steps", 0) + sim.steps
        elif kind == "drop":
            self.pool.pop(var, None)
            self.env.vars.pop(var, None)
            self.first.pop(var, None)
        elif kind == "gc":
            out["collected"] = gc.collect()
        elif kind == "evict":
            if ev["what"] == "lower":
                out["n"] = len(lower_cache())
                lower_cache().clear()
            else:
                from .common import all_singleton_registries

                n = 0
                for _, reg in all_singleton_registries():
                    n += len(reg)
                    reg.clear()
                out["n"] = n
        elif kind == "config":
            dask.config.set({ev["key"]: ev["value"]})
            self.config_history.append((ev["key"], ev["value"]))
            self.bump("fault.config_flip")
        elif kind == "config_refresh":
            dask.config.refresh()
            self.bump("fault.config_refresh")
        else:
            raise HarnessError(f"unknown event {kind}")
        if kind in ("drop", "gc", "evict", "pickle"):
            self.bump(f"fault.{kind}")
        fakes.set_phase("build")
        return out

    def resolve_key(self, key):
        """JSON key -> real index object (dask masks are built from pool vars)."""
        if isinstance(key, dict) and "dask_mask" in key:
            src = self.pool[key["dask_mask"]["var"]]
            return src > key["dask_mask"]["thr"]
        if isinstance(key, dict) and "np_mask" in key:
            return np.array(key["np_mask"], dtype=bool)
        if isinstance(key, dict) and "aux_mask" in key:
            return self.pool[key["aux_mask"]]  # a live boolean dask collection of the pool, by reference
        if isinstance(key, list) and any(isinstance(k, dict) and "aux" in k for k in key):
            return tuple(self.pool[k["aux"]] if isinstance(k, dict) and "aux" in k else G.from_json_index([k])[0] for k in key)
        return G.from_json_index(key)

    def resolve_value(self, v, x, key):
        if isinstance(v, dict):
            if "array" in v:
                return np.array(v["array"], dtype=v.get("dtype", "f8"))
            if "self_expr" in v:
                return x[key] * v["self_expr"]
            if "var" in v:
                return self.pool[v["var"]]
            if "aux" in v:
                return self.pool[v["aux"]]
        return v

    def log_event(self, ev, extra=None):
        rec = [self.stepno, ev["ev"], ev.get("var")]
        if extra is not None:
            rec.append(extra)
        self.log.append(rec)


# =========================================================================== history generation helpers


def rand_config_event(rng, keys=None):
    keys = keys or sorted(CONFIG_DOMAIN)
    k = rng.choice(keys)
    return {"ev": "config", "key": k, "value": rng.choice(CONFIG_DOMAIN[k])}


def rand_sched(rng):
    return {"policy": rng.choice(["fifo", "lifo", "random", "order", "rorder"]), "sseed": rng.getrandbits(32),
            "release": rng.random() < 0.5}


def delete_each(seq):
    for i in reversed(range(len(seq))):
        yield seq[:i] + seq[i + 1:]


# --------------------------------------------------------------------------- shared known-finding helpers

NON_ELEMENTWISE = {"mo_smooth": "mo_fn", "bw_centre_on_max": "bw_double", "mb_blockid": "mb_scale", "mb_blockinfo": "mb_scale"}


def has_nonelementwise_userfn(case):
    for s in case["recipe"]["steps"]:
        a = s["args"]
        if a.get("fn") in NON_ELEMENTWISE:
            return True
        if s["op"] == "userfn" and a.get("kind") == "blockwise" and a.get("raises_on_empty"):
            return True
    return False


def ablate_userfns(case):
    """The same case with every non-elementwise user block function replaced by an elementwise one."""
    rec = dict(case["recipe"])
    steps = []
    for s in rec["steps"]:
        a = dict(s["args"])
        if a.get("fn") in NON_ELEMENTWISE:
            a["fn"] = NON_ELEMENTWISE[a["fn"]]
        if s["op"] == "userfn" and a.get("kind") == "blockwise":
            a["raises_on_empty"] = False
        steps.append(dict(s, args=a))
    rec["steps"] = steps
    return dict(case, recipe=rec)


def _window_reduce_steps(case):
    return [s for s in case["recipe"]["steps"] if s["op"] == "window" and "reduce" in s["args"] and not s["args"].get("ablate")]


def nested_window_steps(case):
    """window+reduce steps that have another window+reduce step among their ancestors."""
    steps = case["recipe"]["steps"]
    by_out = {s["out"]: s for s in steps}
    wr = {s["out"] for s in _window_reduce_steps(case)}
    anc = {}

    def ancestors(v):
        if v not in anc:
            a = set()
            for i in by_out[v]["in"] if v in by_out else []:
                a.add(i)
                a |= ancestors(i)
            anc[v] = a
        return anc[v]

    return [v for v in sorted(wr) if ancestors(v) & wr]


def pre_nested_window(case, result):
    return bool(nested_window_steps(case))


def abl_nested_window(case):
    """The same case with every window+reduce step that feeds another one replaced by a plain slice of the
    same shape and dtype (only the outermost of each chain keeps the sliding-window machinery)."""
    steps = case["recipe"]["steps"]
    by_out = {s["out"]: s for s in steps}
    inner = set()
    for v in nested_window_steps(case):
        stack = list(by_out[v]["in"])
        seen = set()
        while stack:
            u = stack.pop()
            if u in seen or u not in by_out:
                continue
            seen.add(u)
            s = by_out[u]
            if s["op"] == "window" and "reduce" in s["args"]:
                inner.add(u)
            stack.extend(s["in"])
    rec = dict(case["recipe"])
    rec["steps"] = [dict(s, args=dict(s["args"], ablate=True)) if s["out"] in inner else s for s in steps]
    return dict(case, recipe=rec)


UNIFY_KEYS = ("array.unify-chunks-policy", "array.unify-chunks-limit")


def is_unify_flip(e):
    return (e["ev"] == "config" and e.get("key") in UNIFY_KEYS) or e["ev"] == "config_refresh"


def pre_unify_flip(case, result):
    return any(is_unify_flip(e) for e in case.get("history", []))


def abl_unify_flip(case):
    return dict(case, history=[e for e in case["history"] if not is_unify_flip(e)])


def pre_masked_unoptimized(case, result):
    """F28: a masked source in the program and array.optimize-graph=False in effect somewhere in the
    history (the generic, un-fused kernels run numpy.ma's own semantics)."""
    if not any(sp.get("masked") for sp in case["recipe"]["sources"].values()):
        return False
    if any(s_["op"] == "window" and "reduce" in s_["args"] for s_ in case["recipe"]["steps"]):
        return True  # native sliding-window kernels work on the data and ignore the mask
    return any(e["ev"] == "config" and e.get("key") == "array.optimize-graph" and e.get("value") is False
               for e in case.get("history", []))


def abl_unmask(case):
    """The same case over plain (unmasked) sources."""
    rec = dict(case["recipe"])
    rec["sources"] = {k: dict(v, masked=False) for k, v in rec["sources"].items()}
    return dict(case, recipe=rec)


def pre_userfn(case, result):
    return has_nonelementwise_userfn(case)


def pre_generic_driver(case, result):
    h = case.get("history", [])
    return any((e["ev"] == "persist" and e.get("entry") == "dask") or e["ev"] == "doptimize" for e in h)


F2B_MESSAGES = ("from_graph cannot find output block", "Chunks do not add up", "which no task produces", "Missing dependency")


def sole_generic_driver(case, result):
    """F2b is a LOUD failure with a documented message; anything else a run with dask.persist /
    dask.optimize shows (a wrong value, another exception) is not explained by it."""
    if result.get("cls") in ("entry-point-raises", "raises-under-history") and any(
            t in str(result.get("detail")) for t in F2B_MESSAGES):
        return True
    # the SILENT variant (listed under C06 too): dask.persist(x) keeps x's name and advertised chunks but
    # holds the blocks of the rewritten grid, so operations applied to it compute other values
    return result.get("cls") == "entry-points-disagree" and any(
        e["ev"] == "persist" and e.get("entry") == "dask" for e in case.get("history", []))


def abl_generic_driver(case):
    return dict(case, history=[dict(e, entry="method") if e["ev"] == "persist" else (dict(e, ev="optimize") if e["ev"] == "doptimize" else e)
                               for e in case["history"]])
