"""preempt: 2-3 tasks in flight as real threads that are *baton-passed*.

Exactly one thread holds the baton at any time.  ``sys.settrace`` line events inside
frames whose code lives under the repository's ``dask_array`` package are the
pre-emption points: there the running task hands the baton back and the simulator's
seeded PRNG decides who continues (another in-flight task, a newly started ready
task, or the same one).  A contended ``SimLock.acquire`` parks the task until the
lock is released; if every in-flight task is parked and nothing can be started, that
is a deadlock.  NumPy C calls are atomic (a stated limit).  One seed = one interleaving.
"""

from __future__ import annotations

import os
import sys
import threading

import numpy as np

from dask._task_spec import Alias, DataNode, convert_legacy_graph

from . import fakes
from .common import REPO, HarnessError, UnexecutableGraph, Violation, fp
from .schedsim import KeyOrder, _flatten, _nest, keyrepr

WAIT = 120.0
MAIN = object()  # baton value meaning "the scheduler runs"


class _Thread:
    __slots__ = ("key", "thread", "done", "result", "error", "parked_on", "started")

    def __init__(self, key):
        self.key = key
        self.thread = None
        self.done = False
        self.result = None
        self.error = None
        self.parked_on = None
        self.started = False


class PreemptSim:
    def __init__(self, rng, inflight=2, yield_p=0.25, monitor_deps=True, prop="C10", stats=None, yield_cap=20000,
                 locks=()):
        self.rng = rng
        self.inflight = inflight
        self.yield_p = yield_p
        self.monitor_deps = monitor_deps
        self.prop = prop
        self.stats = stats if stats is not None else {}
        self.yield_cap = yield_cap
        self.cv = threading.Condition()
        self.baton = MAIN  # who may run: MAIN or a _Thread
        self.cur = None
        self.steps = 0
        self.yields = 0
        self.switches = 0
        self.trace = []  # (key, n) run-length encoded interleaving
        self.locks = list(locks)
        self.prefix = os.path.join(os.path.realpath(REPO), "dask_array") + os.sep
        self.order = []

    def bump(self, k, n=1):
        self.stats[k] = self.stats.get(k, 0) + n

    # ---------------------------------------------------------------- called from task threads
    def current_task(self):
        return self.ko.cname(self.cur.key) if self.cur is not None else None

    def _tracer(self, frame, event, arg):
        if event != "call":
            return None
        fn = frame.f_code.co_filename
        if not fn.startswith(self.prefix):
            return None
        return self._line

    def _line(self, frame, event, arg):
        if event == "line":
            t = self.cur
            if t is not None and threading.current_thread() is t.thread:
                self.yields += 1
                if self.yields <= self.yield_cap and self.rng.random() < self.yield_p:
                    self._hand_back(t)
        return self._line

    def _hand_back(self, t):
        """Task thread gives the baton to the scheduler and waits to be resumed."""
        with self.cv:
            self.baton = MAIN
            self.cv.notify_all()
            while self.baton is not t:
                if not self.cv.wait(WAIT):
                    raise HarnessError("preempt: task thread starved (baton never returned)")

    def yield_point(self):
        """Cooperative pre-emption point inside a fake (fakes.yield_point)."""
        t = self.cur
        if t is not None and threading.current_thread() is t.thread:
            self.yields += 1
            if self.rng.random() < max(self.yield_p, 0.5):
                self.bump("probe.yield_inside_io")
                self._hand_back(t)

    def park_on(self, lock):
        t = self.cur
        if t is None or threading.current_thread() is not t.thread:
            raise HarnessError("preempt: park_on outside a task thread")
        t.parked_on = lock
        self.bump("probe.lock_contention")
        self._hand_back(t)

    def _body(self, t, node, args):
        with self.cv:
            while self.baton is not t:
                if not self.cv.wait(WAIT):
                    return
        sys.settrace(self._tracer)
        try:
            t.result = node(args)
        except BaseException as e:  # noqa: BLE001
            t.error = e
        finally:
            sys.settrace(None)
            t.done = True
            with self.cv:
                self.baton = MAIN
                self.cv.notify_all()

    # ---------------------------------------------------------------- scheduler (main thread)
    def _resume(self, t):
        with self.cv:
            self.cur = t
            fakes.CURRENT["task"] = self.ko.cname(t.key)
            self.baton = t
            self.cv.notify_all()
            while self.baton is not MAIN:
                if not self.cv.wait(WAIT):
                    raise HarnessError(f"preempt: task {t.key!r} did not yield or finish within {WAIT}s")
            self.cur = None
            fakes.CURRENT["task"] = None

    def get(self, dsk, keys, **kwargs):
        if hasattr(dsk, "__dask_graph__"):
            prev = fakes.set_phase("graph")
            try:
                dsk = dsk.__dask_graph__()
            finally:
                fakes.set_phase(prev)
        return self.run(dsk, keys)

    __call__ = get

    def run(self, dsk, keys):
        g = convert_legacy_graph(dict(dsk))
        ko = self.ko = KeyOrder(g)
        wanted = set(_flatten(keys))
        reach = set()
        stack = sorted(wanted, key=ko.sort)
        for k in stack:
            if k not in g:
                raise UnexecutableGraph(f"requested key {k!r} not in graph")
        while stack:
            k = stack.pop()
            if k in reach:
                continue
            reach.add(k)
            for x in g[k].dependencies:
                if x not in g:
                    raise UnexecutableGraph(f"task {k!r} depends on {x!r} which no task produces")
                stack.append(x)
        g = {k: g[k] for k in g if k in reach}
        deps = {k: sorted(g[k].dependencies, key=ko.sort) for k in sorted(g, key=ko.sort)}
        dependents = {k: [] for k in deps}
        for k, d in deps.items():
            for x in d:
                dependents[x].append(k)
        waiting = {k: len(d) for k, d in deps.items()}
        ready = [k for k in deps if waiting[k] == 0]
        cache = {}
        running = []
        before = {}
        # every SimLock alive at run time parks on contention (also the ones a store made for lock=True)
        self.locks = list({id(lk): lk for lk in list(self.locks) + list(fakes._LOCKS.values())}.values())
        for lk in self.locks:
            lk.scheduler = self
        fakes.YIELD[0] = self.yield_point
        prev_phase = fakes.set_phase("execute")
        try:
            while ready or running:
                self.steps += 1
                if self.steps > 200000:
                    raise HarnessError("preempt: step cap exceeded")
                runnable = [t for t in running if t.parked_on is None or not t.parked_on.locked()]
                can_start = bool(ready) and len(running) < self.inflight
                if not runnable and not can_start:
                    held = sorted({f"{t.parked_on.name} held by {t.parked_on.owner}" for t in running if t.parked_on is not None})
                    raise Violation(self.prop, "deadlock",
                                    f"all {len(running)} in-flight tasks are blocked on locks ({'; '.join(held)}) and nothing can start")
                choices = len(runnable) + (1 if can_start else 0)
                c = self.rng.randrange(choices)
                if c < len(runnable):
                    t = runnable[c]
                    t.parked_on = None
                else:
                    k = ready.pop(self.rng.randrange(len(ready)))
                    node = g[k]
                    if isinstance(node, (DataNode, Alias)):
                        # literals and aliases have no code to interleave
                        cache[k] = node(cache)
                        self.order.append(ko.cname(k))
                        self._finish(k, dependents, waiting, ready)
                        continue
                    t = _Thread(k)
                    if self.monitor_deps:
                        before[k] = [(x, fp(cache[x])) for x in deps[k]]
                    t.thread = threading.Thread(target=self._body, args=(t, node, cache), daemon=True)
                    t.thread.start()
                    running.append(t)
                    self.order.append(ko.cname(k))
                if self.trace and self.trace[-1][0] == ko.cname(t.key):
                    self.trace[-1][1] += 1
                else:
                    self.trace.append([ko.cname(t.key), 1])
                    self.switches += 1
                self._resume(t)
                if t.done:
                    running.remove(t)
                    t.thread.join(WAIT)
                    if t.error is not None:
                        # let the other in-flight tasks drain before propagating
                        self._drain(running)
                        raise t.error
                    cache[t.key] = t.result
                    if self.monitor_deps:
                        for x, b in before.pop(t.key, []):
                            if b is not None and fp(cache[x]) != b:
                                self._drain(running)
                                raise Violation(self.prop, "dependency-mutated",
                                                f"a dependency {x!r} of task {t.key!r} changed value while it ran "
                                                f"(with {len(running)} other task(s) in flight)", step=self.steps)
                    self._finish(t.key, dependents, waiting, ready)
        finally:
            fakes.set_phase(prev_phase)
            fakes.YIELD[0] = None
            for lk in self.locks:
                lk.scheduler = None
        self.bump("probe.preempt_switches", self.switches)
        self.bump("probe.preempt_yields", min(self.yields, self.yield_cap))
        return _nest(keys, cache)

    def _finish(self, k, dependents, waiting, ready):
        newly = []
        for u in dependents[k]:
            waiting[u] -= 1
            if waiting[u] == 0:
                newly.append(u)
        ready.extend(sorted(newly, key=self.ko.sort))

    def _drain(self, running):
        """Run the remaining in-flight tasks to completion (no more pre-emption) so no thread is left behind."""
        self.yield_p = 0.0
        for t in list(running):
            guard = 0
            while not t.done and guard < 1000:
                guard += 1
                if t.parked_on is not None and t.parked_on.locked():
                    break  # cannot finish: leave the daemon thread parked
                t.parked_on = None
                self._resume(t)
