"""NumPy mirror for the small op subset used where a property's statement names NumPy
(C24 reads, C25 store sources)."""

from __future__ import annotations

import numpy as np

from . import gen as G
from .common import Invalid

SUPPORTED = {"from_array", "getitem", "rechunk", "unary", "transpose", "expand_squeeze", "concat", "binary", "flip_roll"}


def np_apply(step, ins, env):
    op = step["op"]
    a = step["args"]
    if op == "from_array":
        return env.source(a["src"])["orig"]
    x = ins[0]
    if op == "getitem":
        return x[G.from_json_index(a["index"])]
    if op == "rechunk":
        return x
    if op == "transpose":
        if a["kind"] == "T":
            return x.T
        if a["kind"] == "perm":
            return x.transpose(tuple(a["axes"]))
        if a["kind"] == "swap":
            return np.swapaxes(x, a["a"], a["b"])
        return np.moveaxis(x, a["a"], a["b"])
    if op == "expand_squeeze":
        if a["kind"] == "expand":
            return np.expand_dims(x, a["axis"])
        return np.squeeze(x, axis=a["axis"])
    if op == "flip_roll":
        if a["kind"] == "flip":
            return np.flip(x, a["axis"])
        return np.roll(x, a["shift"], axis=a["axis"])
    if op == "unary":
        f = a["f"]
        if f == "neg":
            return -x if x.dtype.kind != "b" else ~x
        if f == "abs":
            return abs(x)
        if f == "addc":
            return x + a["c"]
        if f == "mulc":
            return x * a["c"]
        if f == "astype":
            return x.astype(a["dtype"])
        if f == "square":
            return x * x
        if f == "positive":
            return +x if x.dtype.kind != "b" else x
        raise Invalid(f"no numpy mirror for unary {f}")
    if op == "concat":
        if a["kind"] == "stack":
            return np.stack(list(ins), axis=a["axis"])
        return np.concatenate(list(ins), axis=a["axis"])
    if op == "binary":
        x, y = ins
        f = a["f"]
        if f == "add":
            return x + y
        if f == "sub":
            return x - y if not (x.dtype.kind == "b" and y.dtype.kind == "b") else x ^ y
        if f == "mul":
            return x * y
        if f == "maximum":
            return np.maximum(x, y)
        if f == "where":
            return np.where(x > 3, x, y)
        if f == "lt":
            return x < y
        if f == "hypot":
            return np.hypot(x.astype("f8"), y.astype("f8"))
        raise Invalid(f"no numpy mirror for binary {f}")
    raise Invalid(f"no numpy mirror for {op}")


def np_eval(recipe, env, var):
    vals = {}
    for i in G.needed_steps(recipe, var):
        s = recipe["steps"][i]
        o = G.OPS[s["op"]]
        ins = [vals[v] for v in s["in"][: o.arity]]
        with np.errstate(all="ignore"):
            vals[s["out"]] = np_apply(s, ins, env)
    return vals[var]
