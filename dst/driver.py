"""Lean driver: spawns long-lived workers, deals seeds, aggregates evidence,
shrinks + replays violations, matches known findings.  Imports no numpy/dask."""

from __future__ import annotations

import argparse
import hashlib
import json
import os
import selectors
import subprocess
import sys
import time

ROOT = os.path.dirname(os.path.dirname(os.path.abspath(__file__)))
PY = os.environ.get("VERIF_PYTHON", "/venv/bin/python")
DEFAULT_SEED = 20260921


def derive(*parts) -> int:
    h = hashlib.sha256("/".join(str(p) for p in parts).encode()).digest()
    return int.from_bytes(h[:8], "big")


def load_json(p):
    with open(p) as f:
        return json.load(f)


class Worker:
    def __init__(self, idx, hashseed, extra_env=None):
        env = dict(os.environ)
        env["PYTHONHASHSEED"] = str(hashseed)
        env["PYTHONDONTWRITEBYTECODE"] = "1"
        env.pop("PYTHONPATH", None) if not os.environ.get("VERIF_KEEP_PYTHONPATH") else None
        for k in ("OMP_NUM_THREADS", "OPENBLAS_NUM_THREADS", "MKL_NUM_THREADS"):
            env[k] = "1"
        if extra_env:
            env.update(extra_env)
        self.idx = idx
        self.hashseed = hashseed
        self.errpath = f"/tmp/verif-worker-{os.getpid()}-{idx}.err"
        self.errf = open(self.errpath, "w")
        self.p = subprocess.Popen(
            [PY, "-u", os.path.join(ROOT, "dst", "worker.py")],
            stdin=subprocess.PIPE,
            stdout=subprocess.PIPE,
            stderr=self.errf,
            cwd=ROOT,
            env=env,
            text=True,
            bufsize=1,
        )
        self.job = None
        self.t0 = None
        self.ready = False

    def send(self, job):
        self.job = job
        self.t0 = time.monotonic()
        self.p.stdin.write(json.dumps(job) + "\n")
        self.p.stdin.flush()

    def close(self, kill=False):
        try:
            if kill:
                self.p.kill()
            else:
                try:
                    self.p.stdin.write(json.dumps({"cmd": "exit"}) + "\n")
                    self.p.stdin.flush()
                    self.p.stdin.close()
                except Exception:
                    pass
                try:
                    self.p.wait(timeout=5)
                except Exception:
                    self.p.kill()
        finally:
            self.errf.close()
            try:
                os.unlink(self.errpath)
            except OSError:
                pass

    def err_tail(self, n=3000):
        try:
            self.errf.flush()
            with open(self.errpath) as f:
                return f.read()[-n:]
        except Exception:
            return ""


class HarnessFailure(Exception):
    pass


class Pool:
    def __init__(self, n, seed, extra_env=None, hashseed_salt="w", hashseed=None):
        self.workers = [
            Worker(i, hashseed if hashseed is not None else derive(seed, hashseed_salt, i) % 4294967295, extra_env)
            for i in range(n)
        ]
        self.sel = selectors.DefaultSelector()
        for w in self.workers:
            self.sel.register(w.p.stdout, selectors.EVENT_READ, w)
        deadline = time.monotonic() + 180
        pending = set(self.workers)
        while pending:
            if time.monotonic() > deadline:
                raise HarnessFailure("worker start-up timed out: " + self.workers[0].err_tail())
            for key, _ in self.sel.select(timeout=1.0):
                w = key.data
                line = w.p.stdout.readline()
                if not line:
                    raise HarnessFailure(f"worker {w.idx} died at start-up: {w.err_tail()}")
                msg = json.loads(line)
                if msg.get("ready"):
                    w.ready = True
                    pending.discard(w)

    def map(self, jobs, timeout=300, on_result=None, stop=None):
        """Run jobs (an iterator) on the pool; returns list of results in completion order."""
        jobs = iter(jobs)
        results = []
        busy = set()
        exhausted = False
        jid = 0
        while True:
            for w in self.workers:
                if w.job is None and not exhausted and not (stop and stop()):
                    try:
                        j = next(jobs)
                    except StopIteration:
                        exhausted = True
                        break
                    j["id"] = jid
                    j.setdefault("timeout", timeout)
                    jid += 1
                    w.send(j)
                    busy.add(w)
            if not busy:
                break
            evs = self.sel.select(timeout=2.0)
            now = time.monotonic()
            for key, _ in evs:
                w = key.data
                if w.job is None:
                    continue
                line = w.p.stdout.readline()
                if not line:
                    raise HarnessFailure(
                        f"worker {w.idx} died on job {json.dumps(w.job)[:300]}: {w.err_tail()}"
                    )
                res = json.loads(line)
                res["_job"] = w.job
                res["_wall"] = now - w.t0
                w.job = None
                busy.discard(w)
                results.append(res)
                if on_result:
                    on_result(res)
            for w in list(busy):
                if now - w.t0 > timeout + 30:
                    tail = w.err_tail()
                    w.p.kill()
                    raise HarnessFailure(f"job timed out after {timeout}s: {json.dumps(w.job)[:300]}\n{tail}")
        return results

    def close(self):
        for w in self.workers:
            w.close()


def known_findings():
    p = os.path.join(ROOT, "known_findings.json")
    if not os.path.exists(p):
        return []
    return load_json(p).get("findings", [])


def budgets():
    return load_json(os.path.join(ROOT, "dst", "budgets.json"))


def run_check(prop, tier, seed, runs=None, nworkers=None, wall=None, extra_env=None, write_evidence=True, quiet=False):
    b = budgets()[prop]
    runs = runs or b[tier]["runs"]
    wall = wall or b[tier]["wall"]
    job_timeout = b[tier].get("job_timeout", 240)
    nworkers = nworkers or min(16, os.cpu_count() or 1, max(1, runs))
    t0 = time.monotonic()
    pool = Pool(nworkers, seed, extra_env)
    startup = time.monotonic() - t0
    try:
        seeds = [derive(seed, prop, i) % (2**53) for i in range(runs)]
        jobs = ({"cmd": "run", "prop": prop, "seed": s, "tier": tier} for s in seeds)
        truncated = []

        def stop():
            if time.monotonic() - t0 > wall:
                if not truncated:
                    truncated.append(True)
                return True
            return False

        results = pool.map(jobs, timeout=job_timeout, stop=stop)
        results.sort(key=lambda r: r["_job"]["seed"])
        t_run = time.monotonic() - t0
        harness = [r for r in results if r.get("status") == "harness-error"]
        if harness:
            r = harness[0]
            print(f"HARNESS-ERROR property={prop} seed={r['_job']['seed']} {r.get('detail', '')[-3000:]}")
            return 2
        viols = [r for r in results if r.get("status") == "violation"]
        reported = []
        known_hit = {}
        rc = 0
        if viols:
            findings = [f for f in known_findings() if f.get("property") == prop and f.get("status") != "fixed"]
            # 1. every violating run is matched against the known findings on its ORIGINAL case: a
            #    discriminator includes an ablation re-run that must come out fully clean, so a
            #    second, unknown problem in the same run cannot hide behind a known one.
            unmatched = list(viols)
            if findings:
                mm = pool.map(
                    ({"cmd": "match", "prop": prop, "case": r["case"], "result": _slim(r), "findings": findings} for r in viols),
                    timeout=900,
                )
                by_seed = {}
                for m_ in mm:
                    if m_.get("status") == "harness-error":
                        print(f"HARNESS-ERROR property={prop} finding match failed: {m_.get('detail', '')[-1500:]}")
                        return 2
                    by_seed[m_["_job"]["case"].get("seed")] = m_.get("matches", [])
                unmatched = []
                for r in viols:
                    ms = by_seed.get(r["case"].get("seed"), [])
                    if ms:
                        for fid in ms:
                            known_hit[fid] = known_hit.get(fid, 0) + 1
                    else:
                        unmatched.append(r)
            for fid in sorted(known_hit):
                fd = next(f for f in findings if f["id"] == fid)
                print(f"KNOWN-FINDING: property={prop} {fid}: {fd.get('short') or fd['what']} (matched {known_hit[fid]} violating runs)")
            # 2. unmatched violations: shrink (bounded number per class), verify the minimised replay in a
            #    fresh interpreter, write replay files.  Runs beyond the shrink cap are reported unshrunk.
            cap = 4 if tier == "quick" else 8
            if os.environ.get("VERIF_NO_SHRINK"):
                cap = 0  # sensitivity runs: report unshrunk, skip minimisation and fresh-process replay
            by_cls = {}
            for r in unmatched:
                by_cls.setdefault(r["cls"], []).append(r)
            todo, rest = [], []
            for cls in sorted(by_cls):
                todo.extend(by_cls[cls][:cap])
                rest.extend(by_cls[cls][cap:])
            if todo:
                shr = pool.map(
                    (
                        {"cmd": "shrink", "prop": prop, "case": r["case"], "cls": r["cls"], "budget": b[tier].get("shrink", 300)}
                        for r in todo
                    ),
                    timeout=900,
                )
                shr.sort(key=lambda r: r["_job"]["case"].get("seed", 0))
                fresh_pools = {}
                try:
                    for s in shr:
                        orig_case = s["_job"]["case"]
                        case = s["case"] if s.get("status") == "violation" else orig_case
                        # a replay runs in ONE fresh interpreter started with the recorded PYTHONHASHSEED
                        hs = orig_case.get("hashseed")
                        if hs not in fresh_pools:
                            fresh_pools[hs] = Pool(1, seed, extra_env, hashseed_salt="replay", hashseed=hs)
                        fresh = fresh_pools[hs]
                        rep = fresh.map([{"cmd": "replay", "prop": prop, "case": case}], timeout=600)[0]
                        if rep.get("status") != "violation" or (s.get("status") == "violation" and rep.get("cls") != s.get("cls")):
                            rep2 = fresh.map([{"cmd": "replay", "prop": prop, "case": orig_case}], timeout=600)[0]
                            if rep2.get("status") != "violation":
                                print(
                                    f"HARNESS-ERROR property={prop} seed={orig_case.get('seed')} violation did not replay "
                                    f"in a fresh process (non-determinism): {s.get('cls')} {s.get('detail', '')[:500]}"
                                )
                                return 2
                            case, rep = orig_case, rep2
                        reported.append((rep, _write_replay(prop, case, rep)))
                finally:
                    for fp_ in fresh_pools.values():
                        fp_.close()
            for r in rest:
                reported.append((r, _write_replay(prop, r["case"], r)))
            seen_cls = set()
            for rep, path in reported:
                print(f"VIOLATION property={prop} replay={path}")
                if rep.get("cls") not in seen_cls:
                    seen_cls.add(rep.get("cls"))
                    print(f"  class={rep.get('cls')} step={rep.get('step')} detail={str(rep.get('detail'))[:600]}")
            if reported:
                rc = 1
        wall_s = time.monotonic() - t0
        if write_evidence:
            write_evidence_file(prop, tier, seed, results, wall_s, t_run, startup, nworkers, b, bool(truncated),
                                len(reported), known_hit, viols)
        if not quiet:
            ok = sum(1 for r in results if r.get("status") == "ok")
            inv = sum(1 for r in results if r.get("status") == "invalid")
            print(
                f"{prop} {tier}: runs={len(results)} ok={ok} invalid={inv} violations={len(viols)} "
                f"reported={len(reported)} known={sum(known_hit.values())} wall={wall_s:.1f}s"
                + (" (truncated by wall budget)" if truncated else "")
            )
        return rc
    finally:
        pool.close()


def _write_replay(prop, case, rep):
    path = os.path.join(os.environ.get("VERIF_REPLAY_DIR") or os.path.join(ROOT, "replays"), f"{prop}-{case.get('seed', 0)}.json")
    os.makedirs(os.path.dirname(path), exist_ok=True)
    with open(path, "w") as f:
        json.dump(
            {
                "property": prop,
                "expected_class": rep.get("cls"),
                "expected_step": rep.get("step"),
                "detail": rep.get("detail"),
                "case": case,
            },
            f,
            indent=1,
            default=str,
        )
    return path


def _slim(r):
    return {k: v for k, v in r.items() if k in ("status", "cls", "detail", "step", "vprop", "stats", "info")}


def write_evidence_file(prop, tier, seed, results, wall_s, t_run, startup, nworkers, b, truncated, nreported,
                        known_hit, viols):
    meta = b.get("meta", {})
    stats = {}
    steps = 0
    shapes = set()
    samples = []
    evals = 0
    for r in results:
        if r.get("status") in ("ok", "violation"):
            evals += 1
        for k, v in (r.get("stats") or {}).items():
            if isinstance(v, (int, float)):
                stats[k] = stats.get(k, 0) + v
        if r.get("nontrivial") and r.get("shape") and r.get("status") in ("ok", "violation"):
            shapes.add(r["shape"])
        if len(samples) < 3 and r.get("status") == "ok" and r.get("nontrivial"):
            samples.append(_sample(r))
    faults = {k[6:]: v for k, v in stats.items() if k.startswith("fault.")}
    probes = {k[6:]: v for k, v in stats.items() if k.startswith("probe.")}
    other = {k: v for k, v in stats.items() if not k.startswith(("fault.", "probe."))}
    ev = {
        "property_id": prop,
        "tier": tier,
        "seed": seed,
        "level": meta.get("level", "exploration"),
        "coverage": {
            "evaluations": max(evals, 0),
            "distinct_nontrivial": len(shapes),
            "rule": meta.get("rule", ""),
            "samples": samples or [{"note": "no non-trivial ok run to sample"}],
            "runs_total": len(results),
            "invalid_cases": sum(1 for r in results if r.get("status") == "invalid"),
            "runs_per_hour": int(len(results) / max(t_run - startup, 1e-6) * 3600),
            "seeds": {"master": seed, "first": results[0]["_job"]["seed"] if results else None, "n": len(results)},
            "logical_steps": int(other.get("steps", 0)),
            "simulated_time": "n/a - the SUT has no clock; logical scheduler/history steps reported",
            "fault_counts": faults,
            "probes": probes,
            "counters": other,
            "components": meta.get("components", {}),
            "workers": nworkers,
            "truncated_by_wall_budget": truncated,
            "outcomes": {"known_findings_hit": known_hit, "violating_runs": len(viols)},
            "exhaustive": False,
        },
        "assumptions": meta.get("assumptions", []),
        "wall_s": round(wall_s, 2),
        "violations": nreported,
    }
    os.makedirs(os.path.join(ROOT, "evidence"), exist_ok=True)
    with open(os.path.join(ROOT, "evidence", f"{prop}.json"), "w") as f:
        json.dump(ev, f, indent=1, default=str)


def _sample(r):
    c = dict(r.get("case") or {})
    s = json.dumps(c, default=str)
    if len(s) > 6000:
        c = {"truncated": s[:6000]}
    return {"seed": r["_job"]["seed"], "case": c, "digest": r.get("digest")}


def replay_file(prop, path):
    d = load_json(path)
    case = d["case"]
    pool = Pool(1, case.get("seed", 0), hashseed_salt="replay", hashseed=case.get("hashseed"))
    try:
        env_hs = case.get("hashseed")
        res = pool.map([{"cmd": "replay", "prop": prop, "case": case}], timeout=900)[0]
    finally:
        pool.close()
    if res.get("status") == "violation":
        print(f"VIOLATION property={prop} replay={path}")
        print(f"  class={res.get('cls')} step={res.get('step')} detail={str(res.get('detail'))[:800]}")
        if res.get("cls") != d.get("expected_class"):
            print(f"  NOTE expected class {d.get('expected_class')}")
        return 1
    if res.get("status") == "harness-error":
        print(f"HARNESS-ERROR property={prop} {res.get('detail', '')[-2000:]}")
        return 2
    print(f"replay of {path}: {res.get('status')} (no violation)")
    return 0


def main(argv=None):
    ap = argparse.ArgumentParser(allow_abbrev=False)
    ap.add_argument("what")
    ap.add_argument("--tier", default=os.environ.get("VERIF_TIER", "quick"))
    ap.add_argument("--replay")
    ap.add_argument("--runs", type=int)
    ap.add_argument("--workers", type=int)
    ap.add_argument("--wall", type=float)
    ap.add_argument("--seed", type=int)
    ap.add_argument("--no-evidence", action="store_true")
    a, rest = ap.parse_known_args(argv)
    seed = a.seed if a.seed is not None else int(os.environ.get("VERIF_SEED", DEFAULT_SEED))
    os.chdir(ROOT)
    try:
        if a.what.startswith("selftest"):
            from dst import selftest

            return selftest.main(a.what, seed, rest)
        prop = a.what.upper()
        if a.replay:
            return replay_file(prop, a.replay)
        return run_check(prop, a.tier, seed, a.runs, a.workers, a.wall, write_evidence=not a.no_evidence)
    except HarnessFailure as e:
        print(f"HARNESS-ERROR {e}")
        return 2


if __name__ == "__main__":
    sys.exit(main())
