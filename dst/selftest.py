"""Self-tests of the harness: determinism of runs, sensitivity to seeded mutants."""

from __future__ import annotations

import argparse
import json
import os
import shutil
import subprocess
import sys
import tempfile

from . import driver

ROOT = driver.ROOT


def main(what, seed, rest):
    if what == "selftest-determinism":
        return determinism(seed, rest)
    if what == "selftest-sensitivity":
        return sensitivity(seed, rest)
    print("unknown selftest", what)
    return 2


def determinism(seed, rest):
    """Every sampled seed is run (a) on a pool of 16 workers in forward order and
    (b) on a pool of 1-3 workers in reverse order under different PYTHONHASHSEEDs;
    the per-run event-log digests must be identical."""
    ap = argparse.ArgumentParser()
    ap.add_argument("--props", default="")
    ap.add_argument("--n", type=int, default=48)
    a = ap.parse_args(rest)
    b = driver.budgets()
    props = [p for p in a.props.split(",") if p] or sorted(b)
    bad = 0
    for prop in props:
        seeds = [driver.derive(seed, prop, i) % (2**53) for i in range(a.n)]
        res = []
        for nworkers, order, salt in ((16, seeds, "detA"), (3, seeds[::-1], "detB")):
            pool = driver.Pool(min(nworkers, len(seeds)), seed, hashseed_salt=salt)
            try:
                rs = pool.map(({"cmd": "run", "prop": prop, "seed": s, "tier": "quick"} for s in order), timeout=600)
            finally:
                pool.close()
            res.append({r["_job"]["seed"]: (r.get("status"), r.get("digest"), r.get("cls")) for r in rs})
        diff = [s for s in seeds if res[0].get(s) != res[1].get(s)]
        harness = [s for s in seeds if res[0].get(s, ("",))[0] == "harness-error"]
        print(f"determinism {prop}: seeds={len(seeds)} differing={len(diff)} harness_errors={len(harness)}")
        for s in diff[:5]:
            print("  seed", s, res[0].get(s), res[1].get(s))
        bad += len(diff) + len(harness)
    return 1 if bad else 0


def apply_patch_scratch(patch):
    """Copy /repo's package to a scratch dir outside /repo and /verif, apply ``patch``."""
    scratch = tempfile.mkdtemp(prefix="verif-mut-", dir="/tmp")
    shutil.copytree("/repo/dask_array", os.path.join(scratch, "dask_array"),
                    ignore=shutil.ignore_patterns("tests", "__pycache__"))
    for extra in ("pyproject.toml",):
        shutil.copy(os.path.join("/repo", extra), scratch)
    r = subprocess.run(["patch", "-p1", "-s", "-d", scratch, "-i", os.path.abspath(patch)], capture_output=True, text=True)
    if r.returncode != 0:
        shutil.rmtree(scratch, ignore_errors=True)
        raise RuntimeError(f"patch {patch} failed: {r.stdout} {r.stderr}")
    return scratch


def run_on_patch(prop, patch, tier="quick", runs=None, seed=driver.DEFAULT_SEED, wall=None):
    scratch = apply_patch_scratch(patch)
    try:
        env = dict(os.environ)
        env.update(PYTHONPATH=scratch, VERIF_REPO=scratch, VERIF_KEEP_PYTHONPATH="1", VERIF_SEED=str(seed),
                   VERIF_REPLAY_DIR=os.path.join(scratch, "replays"))
        if os.environ.get("VERIF_SENS_FAST"):
            env["VERIF_NO_SHRINK"] = "1"
        cmd = [driver.PY, "-u", os.path.join(ROOT, "check"), prop, "--tier", tier, "--no-evidence"]
        if runs:
            cmd += ["--runs", str(runs)]
        if wall:
            cmd += ["--wall", str(wall)]
        r = subprocess.run(cmd, capture_output=True, text=True, env=env, cwd=ROOT)
        return r.returncode, r.stdout + r.stderr
    finally:
        shutil.rmtree(scratch, ignore_errors=True)


def sensitivity(seed, rest):
    """For every mutant under /verif/mutants and /verif/seeded: the listed property's
    quick check must report a VIOLATION."""
    ap = argparse.ArgumentParser()
    ap.add_argument("--only", default="")
    ap.add_argument("--start", default="", help="skip items sorting before this name")
    ap.add_argument("--tier", default="quick")
    a = ap.parse_args(rest)
    items = []
    for base in ("mutants", "seeded"):
        d = os.path.join(ROOT, base)
        if not os.path.isdir(d):
            continue
        for name in sorted(os.listdir(d)):
            meta = os.path.join(d, name, "meta.json")
            patch = os.path.join(d, name, "patch.diff")
            if os.path.exists(meta) and os.path.exists(patch):
                m = json.load(open(meta))
                items.append((f"{base}/{name}", m, patch))
    missed = 0
    for name, m, patch in items:
        if a.only and a.only not in name:
            continue
        if a.start and name < a.start:
            continue
        props = m.get("detect_with") or [m["property"]]
        if m.get("effective_on_current_tree") is False:
            print(f"{name}: skipped (harmless on the current tree: {str(m.get('note', ''))[:80]})")
            continue
        hit = []
        for prop in props:
            try:
                rc, out = run_on_patch(prop, patch, a.tier, seed=seed, runs=m.get("runs"), wall=m.get("wall"))
            except RuntimeError as e:
                rc, out = 3, f"STALE PATCH (does not apply to the current tree): {str(e)[:150]}"
            viol = [ln for ln in out.splitlines() if ln.startswith("VIOLATION")]
            hit.append((prop, rc, len(viol)))
            tail = [ln for ln in out.splitlines() if ln.strip().startswith("class=")][:1]
            print(f"{name}: {prop} rc={rc} violations={len(viol)} {tail[0].strip()[:200] if tail else out.strip().splitlines()[-1][:200] if out.strip() else ''}")
        if not any(rc == 1 for _, rc, _ in hit):
            if m.get("effective_on_current_tree") == "rare":
                print(f"  RARE {name}: not reported at this budget (documented in its meta.json; not counted)")
            else:
                missed += 1
                print(f"  MISSED {name}")
    print(f"sensitivity: {len(items)} mutants, missed={missed}")
    return 1 if missed else 0
