"""In-process fakes for the external parties of dask_array: array-like sources,
array-like store targets, locks, user block functions.  They record every request
and can fail the k-th one."""

from __future__ import annotations

import threading
from numbers import Integral

import numpy as np

PHASE = ["build"]
CURRENT = {"task": None, "step": 0}
ALL_SOURCES = []  # every SimSource created in this run (including unpickled copies)
ALL_FNS = []
SERIAL = [0]


def set_phase(p):
    old = PHASE[0]
    PHASE[0] = p
    return old


class InjectedIOError(OSError):
    pass


class InjectedTaskFailure(RuntimeError):
    """The simulated scheduler lost a task (worker crash / cancellation) at a seeded point of a run."""


def _norm_index(idx, ndim):
    if not isinstance(idx, tuple):
        idx = (idx,)
    if any(i is Ellipsis for i in idx):
        n = sum(1 for i in idx if i is not None and i is not Ellipsis)
        out = []
        for i in idx:
            if i is Ellipsis:
                out.extend([slice(None)] * (ndim - n))
            else:
                out.append(i)
        idx = tuple(out)
    return idx


def check_bounds(idx, shape, fancy_ok):
    """Explicit bounds check of one request; returns a reason string or None."""
    idx = _norm_index(idx, len(shape))
    real = [i for i in idx if i is not None]
    if len(real) > len(shape):
        return f"too many indices {idx!r} for shape {shape}"
    for ax, i in enumerate(real):
        dim = shape[ax]
        if isinstance(i, slice):
            step = 1 if i.step is None else i.step
            if step == 0:
                return f"zero step on axis {ax}"
            start, stop = i.start, i.stop
            if step > 0:
                s = 0 if start is None else start
                e = dim if stop is None else stop
                if s < 0 or e < 0:
                    return f"negative bound in {i!r} on axis {ax} (dim {dim})"
                if s > dim or e > dim:
                    return f"slice {i!r} exceeds dim {dim} on axis {ax}"
                if s > e:
                    return f"slice {i!r} has negative extent on axis {ax}"
            else:
                for b in (start, stop):
                    if b is not None and not (-dim - 1 <= b <= dim):
                        return f"slice {i!r} exceeds dim {dim} on axis {ax}"
        elif isinstance(i, (Integral, np.integer)):
            if not (-dim <= int(i) < dim):
                return f"integer index {int(i)} out of bounds for dim {dim} on axis {ax}"
        else:
            if not fancy_ok:
                return f"fancy index {type(i).__name__} on axis {ax} but fancy=False"
            a = np.asarray(i)
            if a.dtype == bool:
                if a.shape[0] != dim:
                    return f"bool index of length {a.shape[0]} for dim {dim}"
            elif a.size and (a.min() < -dim or a.max() >= dim):
                return f"fancy index out of bounds for dim {dim} on axis {ax}"
    return None


def idx_json(idx):
    if not isinstance(idx, tuple):
        idx = (idx,)
    out = []
    for i in idx:
        if isinstance(i, slice):
            out.append([i.start, i.stop, i.step])
        elif i is None:
            out.append("None")
        elif i is Ellipsis:
            out.append("...")
        elif isinstance(i, (Integral, np.integer)):
            out.append(int(i))
        else:
            out.append({"fancy": np.asarray(i).tolist()})
    return out


YIELD = [None]  # preempt-mode scheduler's cooperative yield hook (None: tasks are atomic)


def yield_point():
    """A point INSIDE a fake's operation at which another in-flight task may run (preempt mode only):
    between the read and the write-back of a read-modify-write store, for instance."""
    f = YIELD[0]
    if f is not None:
        f()


class SimLock:
    """Lock fake. Owner = the simulated task that acquired it."""

    def __init__(self, name="lock"):
        self.name = name
        self.owner = None
        self.log = []
        self.errors = []
        self.acquisitions = 0
        self.contended = 0
        self.scheduler = None  # preempt-mode scheduler parks on contention

    def acquire(self, blocking=True, timeout=-1):
        me = CURRENT["task"] if self.scheduler is None else self.scheduler.current_task()
        while self.owner is not None:
            if not blocking:
                self.contended += 1
                self.log.append(("try-failed", me))
                return False
            if self.owner == me:
                self.errors.append(f"re-acquire of {self.name} by its owner {me}")
                raise RuntimeError("SimLock: re-acquire by owner (would deadlock)")
            if self.scheduler is None:
                self.errors.append(f"{self.name} acquired by {me} while held by {self.owner}")
                raise RuntimeError("SimLock: contended acquire outside preempt mode (lock leaked?)")
            self.contended += 1
            self.scheduler.park_on(self)
        self.owner = me if me is not None else "<main>"
        self.acquisitions += 1
        self.log.append(("acq", self.owner))
        return True

    def release(self):
        me = CURRENT["task"] if self.scheduler is None else self.scheduler.current_task()
        me = me if me is not None else "<main>"
        if self.owner is None:
            self.errors.append(f"release of free lock {self.name} by {me}")
            raise RuntimeError("SimLock: release of a free lock")
        if self.owner != me:
            self.errors.append(f"release of {self.name} by {me} but owner is {self.owner}")
        self.log.append(("rel", me))
        self.owner = None

    def held_by_current(self):
        me = CURRENT["task"] if self.scheduler is None else self.scheduler.current_task()
        me = me if me is not None else "<main>"
        return self.owner == me

    def locked(self):
        return self.owner is not None

    def __enter__(self):
        self.acquire()
        return self

    def __exit__(self, *a):
        self.release()

    def __dask_tokenize__(self):
        return ("SimLock", self.name)

    def __reduce__(self):
        return (_get_lock, (self.name,))


_LOCKS = {}


def _get_lock(name):
    return _LOCKS.setdefault(name, SimLock(name))


def new_lock(name):
    lk = SimLock(name)
    _LOCKS[name] = lk
    return lk


class SimSource:
    """Array-like source. Records every __getitem__; checks bounds itself
    (NumPy would clip silently); can fail the k-th non-empty request."""

    def __init__(self, backing, storage_grid=None, name="src", tokenizable=True, lock=None, fancy_ok=True,
                 array_function=False, lazy=False):
        self.lazy = lazy  # __getitem__ only SELECTS; the I/O happens when the selection is materialised
        self._a = backing
        self._orig = backing.copy()
        self.shape = backing.shape
        self.dtype = backing.dtype
        self.ndim = backing.ndim
        if storage_grid is not None:
            self.chunks = tuple(storage_grid)
        self.name = name
        self.tokenizable = tokenizable
        self.lock = lock  # the lock the user promised reads happen under
        self.fancy_ok = fancy_ok
        self.log = []  # (phase, task, idx_json, result_shape, lock_held)
        self.errors = []
        self.fail_at = None  # index among non-empty execute-phase requests
        self.nreq = 0
        self.faults_fired = 0
        self._unpicklable = None if tokenizable else threading.Lock()
        ALL_SOURCES.append(self)

    def __getitem__(self, idx):
        reason = check_bounds(idx, self.shape, self.fancy_ok)
        try:
            out = self._a[idx]
        except Exception as e:  # out-of-range integer etc.
            self.errors.append(f"request {idx_json(idx)} raised {type(e).__name__}: {e}")
            raise
        nonempty = getattr(out, "size", 1) != 0
        if self.lazy and nonempty and PHASE[0] == "execute" and isinstance(out, np.ndarray):
            # a lazily indexed backend (xarray's lazily-indexed adapters, netCDF variable proxies): nothing is
            # read here; the read -- and with it the lock requirement and any I/O error -- happens in
            # np.asarray(selection)
            if reason:
                self.errors.append(f"out-of-bounds request {idx_json(idx)}: {reason}")
            return _Deferred(self, idx, out)
        held = None
        if self.lock is not None:
            held = self.lock.held_by_current()
        self.log.append((PHASE[0], CURRENT["task"], idx_json(idx), tuple(np.shape(out)), held))
        if reason and nonempty:
            self.errors.append(f"out-of-bounds request {idx_json(idx)}: {reason}")
        elif reason:
            # an empty out-of-bounds probe is still a request outside the source
            self.errors.append(f"out-of-bounds (empty) request {idx_json(idx)}: {reason}")
        if nonempty and PHASE[0] == "execute":
            k = self.nreq
            self.nreq += 1
            if self.fail_at is not None and k == self.fail_at:
                self.faults_fired += 1
                raise InjectedIOError(f"injected read fault at request {k} of {self.name}")
        return np.array(out) if isinstance(out, np.ndarray) else out

    def __len__(self):
        return self.shape[0]

    def __array__(self, dtype=None, copy=None):
        """Whole-source read (what h5py/zarr datasets do on np.asarray)."""
        held = self.lock.held_by_current() if self.lock is not None else None
        self.log.append((PHASE[0], CURRENT["task"], "__array__", tuple(self.shape), held))
        a = np.array(self._a)
        return a.astype(dtype) if dtype is not None else a

    def nonempty_outside_execute(self):
        return [r for r in self.log if r[0] != "execute" and int(np.prod(r[3])) != 0]

    def unchanged(self):
        return self._a.shape == self._orig.shape and self._a.tobytes() == self._orig.tobytes()

    def __dask_tokenize__(self):
        from dask.tokenize import tokenize

        return ("SimSource", self.name, tokenize(self._orig), getattr(self, "chunks", None))

    def __reduce__(self):
        return (_rebuild_source, (self._orig, getattr(self, "chunks", None), self.name))


class _Deferred:
    """The selection a lazy source hands back: shape and dtype are known, the data is not read yet.
    Deliberately NOT array-like in dask's sense (no __array_function__/__array_ufunc__), like the
    lazily indexed adapters it stands for, so that ``getter`` materialises it with np.asarray."""

    def __init__(self, src, idx, out):
        self._src, self._idx, self._out = src, idx, out
        self.shape, self.dtype, self.ndim, self.size = out.shape, out.dtype, out.ndim, out.size

    def __array__(self, dtype=None, copy=None):
        s = self._src
        held = s.lock.held_by_current() if s.lock is not None else None
        s.log.append((PHASE[0], CURRENT["task"], idx_json(self._idx), tuple(self._out.shape), held))
        if PHASE[0] == "execute":
            k = s.nreq
            s.nreq += 1
            if s.fail_at is not None and k == s.fail_at:
                s.faults_fired += 1
                raise InjectedIOError(f"injected read fault at request {k} of {s.name} (while materialising)")
        a = np.array(self._out)
        return a.astype(dtype) if dtype is not None else a


class OpaqueSimSource(SimSource):
    """A source with no deterministic token (like an h5py dataset): no usable
    __dask_tokenize__, not picklable."""

    __dask_tokenize__ = property(lambda self: (_ for _ in ()).throw(AttributeError("no token")))

    def __reduce__(self):
        raise TypeError("cannot pickle OpaqueSimSource (holds a lock)")


def _rebuild_source(a, grid, name):
    return SimSource(a, grid, name)


class SimTarget:
    """Array-like store target with a per-cell write counter."""

    def __init__(self, shape, dtype, sentinel, name="tgt", lock=None, rmw=None):
        self.rmw = tuple(rmw) if rmw else None  # storage block shape: writes are read-modify-write of whole blocks
        self.shape = tuple(shape)
        self.dtype = np.dtype(dtype)
        self.ndim = len(shape)
        self.sentinel = sentinel
        self._a = np.full(shape, sentinel, dtype=dtype)
        self.count = np.zeros(shape, dtype=np.int64)
        self.name = name
        self.lock = lock
        self.log = []
        self.errors = []
        self.fail_at = None
        self.nwrites = 0
        self.faults_fired = 0
        self.reads = 0
        # a target is an identity (a file, a store): two targets never tokenize alike, or name-keyed
        # dedup would hand one store the other's object.  Deterministic per run (reset in exec_case).
        SERIAL[0] += 1
        self.serial = SERIAL[0]

    def __setitem__(self, idx, value):
        reason = check_bounds(idx, self.shape, False)
        held = None
        if self.lock is not None:
            held = self.lock.held_by_current()
        v = np.asarray(value)
        self.log.append((PHASE[0], CURRENT["task"], idx_json(idx), tuple(v.shape), held))
        if reason:
            self.errors.append(f"out-of-bounds write {idx_json(idx)}: {reason}")
        if held is False:
            self.errors.append(f"write {idx_json(idx)} by {CURRENT['task']} without holding {self.lock.name}")
        k = self.nwrites
        self.nwrites += 1
        if self.fail_at is not None and k == self.fail_at:
            self.faults_fired += 1
            raise InjectedIOError(f"injected write fault at write {k} of {self.name}")
        if self.rmw and isinstance(idx, tuple) and len(idx) == len(self.shape) and all(
                isinstance(i, slice) and i.step in (None, 1) for i in idx) and not reason:
            # a compressed-chunk store (h5py/zarr-like): read the covering storage blocks, patch, write them
            # back.  Two writers inside this window on the same block lose one update unless a lock that
            # BOTH hold excludes them.
            bb, rel = [], []
            for i, n, b in zip(idx, self.shape, self.rmw):
                a0, a1, _ = i.indices(n)
                lo, hi = (a0 // b) * b, min(-(-a1 // b) * b, n)
                bb.append(slice(lo, max(hi, lo)))
                rel.append(slice(a0 - lo, a1 - lo))
            tmp = self._a[tuple(bb)].copy()
            yield_point()
            tmp[tuple(rel)] = value
            self._a[tuple(bb)] = tmp
        else:
            self._a[idx] = value
        self.count[idx] += 1

    def __getitem__(self, idx):
        self.reads += 1
        return np.array(self._a[idx])

    def __dask_tokenize__(self):
        return ("SimTarget", self.name, self.serial)


class NDTarget(np.ndarray):
    """A real in-memory target: an ``np.ndarray`` (so dask tokenizes it by its *contents*, like any
    user's ``np.zeros(...)`` target) that also counts writes per cell.  Two of these with equal
    contents are still two sinks."""

    @classmethod
    def make(cls, shape, dtype, sentinel, name="tgt", lock=None):
        t = np.full(shape, sentinel, dtype=dtype).view(cls)
        t.sentinel = sentinel
        t.count = np.zeros(shape, dtype=np.int64)
        t.name = name
        t.lock = lock
        t.log = []
        t.errors = []
        t.fail_at = None
        t.nwrites = 0
        t.faults_fired = 0
        return t

    def __array_finalize__(self, obj):
        if getattr(self, "errors", None) is None:
            self.sentinel = getattr(obj, "sentinel", None)
            self.count = None
            self.name = getattr(obj, "name", "view")
            self.lock = None
            self.log = []
            self.errors = None
            self.fail_at = None
            self.nwrites = 0
            self.faults_fired = 0

    @property
    def _a(self):
        return self.view(np.ndarray)

    def __setitem__(self, idx, value):
        if self.errors is None:  # a view/copy made by numpy or dask, not the target itself
            return np.ndarray.__setitem__(self, idx, value)
        reason = check_bounds(idx, self.shape, False)
        held = None
        if self.lock is not None:
            held = self.lock.held_by_current()
        v = np.asarray(value)
        self.log.append((PHASE[0], CURRENT["task"], idx_json(idx), tuple(v.shape), held))
        if reason:
            self.errors.append(f"out-of-bounds write {idx_json(idx)}: {reason}")
        if held is False:
            self.errors.append(f"write {idx_json(idx)} by {CURRENT['task']} without holding {self.lock.name}")
        k = self.nwrites
        self.nwrites += 1
        if self.fail_at is not None and k == self.fail_at:
            self.faults_fired += 1
            raise InjectedIOError(f"injected write fault at write {k} of {self.name}")
        np.ndarray.__setitem__(self, idx, value)
        self.count[idx] += 1


class RecFn:
    """User block function that records each call (phase, shapes, block info)."""

    def __init__(self, fn, name="fn", tokenizable=True):
        self.fn = fn
        self.name = name
        self.__name__ = name
        self.log = []
        self.stacks = []  # call sites of non-empty calls outside execute (diagnostics only)
        self.tokenizable = tokenizable
        self._l = None if tokenizable else threading.Lock()
        ALL_FNS.append(self)

    def __call__(self, *args, **kwargs):
        shapes = tuple(tuple(np.shape(a)) for a in args if hasattr(a, "shape"))
        info = {}
        if "block_id" in kwargs:
            info["block_id"] = kwargs["block_id"]
        if "block_info" in kwargs and kwargs["block_info"] is not None:
            bi = kwargs["block_info"]
            info["block_info"] = {
                str(k): {kk: vv for kk, vv in v.items() if kk in ("shape", "num-chunks", "chunk-location", "array-location", "chunk-shape")}
                for k, v in bi.items()
                if isinstance(v, dict)
            }
        self.log.append((PHASE[0], shapes, info))
        if PHASE[0] != "execute" and any(len(s_) and int(np.prod(s_)) != 0 for s_ in shapes):
            import traceback

            self.stacks.append([f"{f.filename.split('/')[-1]}:{f.lineno}:{f.name}" for f in traceback.extract_stack(limit=12)[:-1]])
        return self.fn(*args, **kwargs)

    def nonempty_outside_execute(self):
        # a 0-d meta necessarily has one element: only blocks with an extent count
        return [r for r in self.log if r[0] != "execute" and any(len(s) and int(np.prod(s)) != 0 for s in r[1])]

    def __dask_tokenize__(self):
        if not self.tokenizable:
            raise TypeError("untokenizable RecFn")
        return ("RecFn", self.name)

    def __reduce__(self):
        if not self.tokenizable:
            raise TypeError("cannot pickle untokenizable RecFn")
        return (_rebuild_fn, (self.name,))


FN_TABLE = {}


def _rebuild_fn(name):
    return RecFn(FN_TABLE[name], name)


GETTER_LOG = []


def rec_getter(a, b, asarray=True, lock=None):
    """A user-supplied getitem for from_array(getitem=...): records, then reads like the default."""
    from dask_array._core_utils import getter

    GETTER_LOG.append((PHASE[0], CURRENT["task"], idx_json(b), bool(lock)))
    return getter(a, b, asarray=asarray, lock=lock)
