"""schedsim: a seeded task-graph scheduler standing in for dask.local / dask.threaded.

One logical step = one scheduling decision.  Every choice comes from the
``random.Random`` handed in; the ready set is an ordered list, nothing iterates a set.
"""

from __future__ import annotations

import re

import numpy as np

from dask._task_spec import Alias, DataNode, convert_legacy_graph

from . import fakes
from .common import HarnessError, UnexecutableGraph, Violation, fp

POLICIES = ("fifo", "lifo", "random", "order", "rorder", "starve")

STEP_CAP = 50_000


def keyrepr(k):
    return repr(k)


_HEX = re.compile(r"[0-9a-f]{8,}")


class KeyOrder:
    """Ordering and naming of graph keys that does not depend on the TEXT of volatile name parts
    (uuid tokens of lock=True / untokenizable sources, ``id()`` of a store target): names are ranked by
    first appearance in the graph's own iteration order, which is a function of how the program was
    built.  Everything the simulator sorts, records or replays goes through here, so one seed is one
    schedule even when names differ from process to process."""

    def __init__(self, graph):
        self.rank = {}
        for k in graph:
            self.rank.setdefault(self._name(k), len(self.rank))

    @staticmethod
    def _name(k):
        return k[0] if isinstance(k, tuple) and k else k

    def sort(self, k):
        n = self._name(k)
        rest = k[1:] if isinstance(k, tuple) else ()
        return (self.rank.get(n, len(self.rank)), len(rest), tuple(r if isinstance(r, int) else -1 for r in rest), repr(rest))

    def cname(self, k):
        n = self._name(k)
        rest = k[1:] if isinstance(k, tuple) else ()
        base = _HEX.sub("", n) if isinstance(n, str) else type(n).__name__
        return f"{base}#{self.rank.get(n, len(self.rank))}{list(rest) if rest else ''}"

    def priorities(self, g, deps):
        """dask.order priorities computed on a surrogate graph with canonical names (dask.order breaks
        ties by key text)."""
        from dask._task_spec import Task, TaskRef
        from dask.order import order

        ck = {k: (f"n{self.rank.get(self._name(k), len(self.rank)):06d}",) + (tuple(k[1:]) if isinstance(k, tuple) else ()) for k in g}
        sur = {ck[k]: Task(ck[k], _noop, *[TaskRef(ck[d]) for d in deps[k]]) for k in g}
        pr = order(sur)
        return {k: pr[ck[k]] for k in g}


def _noop(*a):
    return None


class Sim:
    """One simulated execution of one graph.

    policy      : ready-task choice
    release     : drop intermediates once their last dependent ran
    copy_p      : probability that a dependency edge delivers a copy
    monitor_deps: fingerprint dependencies before/after every task
    decisions   : optional recorded decision list (replay / minimisation)
    """

    def __init__(
        self,
        rng,
        policy="fifo",
        release=False,
        copy_p=0.0,
        monitor_deps=False,
        keep_all=False,
        prop="C10",
        decisions=None,
        stats=None,
        fail_at=None,
    ):
        self.fail_at = fail_at  # crash: the run dies right before its fail_at-th task (0-based)
        self.rng = rng
        self.policy = policy
        self.release = release
        self.copy_p = copy_p
        self.monitor_deps = monitor_deps
        self.keep_all = keep_all
        self.prop = prop
        self.decisions_in = list(decisions) if decisions is not None else None
        self.decisions = []
        self.order = []  # executed keys (repr)
        self.steps = 0
        self.stats = stats if stats is not None else {}
        self.values = {}  # retained key -> value (keep_all)
        self.fault = None  # exception raised by a task (propagated)
        self.graph_size = 0
        self.choice_points = 0

    # -- dask scheduler interface -------------------------------------------------
    def get(self, dsk, keys, **kwargs):
        if hasattr(dsk, "__dask_graph__"):
            prev = fakes.set_phase("graph")
            try:
                dsk = dsk.__dask_graph__()
            finally:
                fakes.set_phase(prev)
        return self.run(dsk, keys)

    __call__ = get

    def bump(self, k, n=1):
        self.stats[k] = self.stats.get(k, 0) + n

    def run(self, dsk, keys):
        g = convert_legacy_graph(dict(dsk))
        ko = self.ko = KeyOrder(g)
        wanted = set(_flatten(keys))
        for k in sorted(wanted, key=ko.sort):
            if k not in g:
                raise UnexecutableGraph(f"requested key {k!r} not in graph")
        # like every real scheduler, run only what the requested keys need
        reach = set()
        stack = sorted(wanted, key=ko.sort)
        while stack:
            k = stack.pop()
            if k in reach:
                continue
            reach.add(k)
            for x in g[k].dependencies:
                if x not in g:
                    raise UnexecutableGraph(f"task {k!r} depends on {x!r} which no task produces")
                if x not in reach:
                    stack.append(x)
        if len(reach) != len(g):
            self.bump("probe.unreachable_tasks", len(g) - len(reach))
            g = {k: g[k] for k in g if k in reach}
        self.graph_size = len(g)
        deps = {}
        for k in sorted(g, key=ko.sort):
            deps[k] = sorted(g[k].dependencies, key=ko.sort)
        dependents = {k: [] for k in deps}
        for k, d in deps.items():
            for x in d:
                dependents[x].append(k)
        waiting = {k: len(set(d)) for k, d in deps.items()}
        remaining_users = {k: len(set(v)) for k, v in dependents.items()}
        prio = None
        if self.policy in ("order", "rorder"):
            prio = ko.priorities(g, deps)
        ready = [k for k in deps if waiting[k] == 0]  # already repr-sorted
        starved = None
        if self.policy == "starve" and len(ready) > 1:
            starved = ready[self.rng.randrange(len(ready))]
        cache = {}
        done = 0
        total = len(g)
        prev_phase = fakes.set_phase("execute")
        try:
            while ready:
                self.steps += 1
                if self.steps > STEP_CAP:
                    raise HarnessError("schedsim step cap exceeded")
                i = self._pick(ready, prio, starved)
                k = ready.pop(i)
                if self.fail_at is not None and done == self.fail_at:
                    self.bump("fault.task_failure")
                    raise fakes.InjectedTaskFailure(f"simulated crash before task {done} of {total} ({ko.cname(k)})")
                self.order.append(ko.cname(k))
                node = g[k]
                self._run_task(k, node, deps[k], cache)
                done += 1
                for u in dependents[k]:
                    waiting[u] -= 1
                if self.keep_all:
                    self.values[k] = cache[k]
                newly = sorted({u for u in dependents[k] if waiting[u] == 0}, key=ko.sort)
                # a dependent can appear twice in dependents[k] only if deps listed twice; set() guards
                for u in newly:
                    waiting[u] = -1
                    ready.append(u)
                if self.release:
                    for x in set(deps[k]):
                        remaining_users[x] -= 1
                        if remaining_users[x] == 0 and x not in wanted:
                            cache.pop(x, None)
            if done != total:
                raise UnexecutableGraph(f"cycle: {total - done} tasks never became ready")
        finally:
            fakes.set_phase(prev_phase)
        return _nest(keys, cache)

    def _pick(self, ready, prio, starved):
        n = len(ready)
        if n > 1:
            self.choice_points += 1
        if self.decisions_in is not None:
            if self.decisions_in:
                want = self.decisions_in.pop(0)
                for i, k in enumerate(ready):
                    if self.ko.cname(k) == want:
                        self.decisions.append(want)
                        return i
            # recorded decision not applicable any more: fall back to fifo
            self.decisions.append(self.ko.cname(ready[0]))
            return 0
        p = self.policy
        if n == 1:
            i = 0
        elif p == "fifo":
            i = 0
        elif p == "lifo":
            i = n - 1
        elif p == "random":
            i = self.rng.randrange(n)
        elif p == "order":
            i = min(range(n), key=lambda j: prio[ready[j]])
        elif p == "rorder":
            i = max(range(n), key=lambda j: prio[ready[j]])
        elif p == "starve":
            cand = [j for j in range(n) if ready[j] != starved]
            i = cand[self.rng.randrange(len(cand))] if cand else 0
        else:
            raise HarnessError(f"unknown policy {p}")
        self.decisions.append(self.ko.cname(ready[i]))
        return i

    def _run_task(self, k, node, dlist, cache):
        fakes.CURRENT["task"] = self.ko.cname(k)
        fakes.CURRENT["step"] = self.steps
        args = cache
        uniq = []
        seen = set()
        for x in dlist:
            if x not in seen:
                seen.add(x)
                uniq.append(x)
        if self.copy_p and uniq and not isinstance(node, (DataNode,)):
            args = dict((x, cache[x]) for x in uniq)
            for x in uniq:
                v = args[x]
                if isinstance(v, np.ndarray) and self.rng.random() < self.copy_p:
                    args[x] = np.array(v, order="K", subok=True)
                    self.bump("probe.copied_edge")
        before = None
        if self.monitor_deps and uniq:
            before = [fp(cache[x]) for x in uniq]
        try:
            out = node(args)
        finally:
            fakes.CURRENT["task"] = None
        cache[k] = out
        if before is not None:
            for x, b in zip(uniq, before):
                if b is None:
                    continue
                a = fp(cache[x])
                if a != b:
                    raise Violation(
                        self.prop,
                        "dependency-mutated",
                        f"task {k!r} modified the value of its dependency {x!r}",
                        step=self.steps,
                    )
            if isinstance(out, np.ndarray):
                for x in uniq:
                    v = cache[x]
                    if isinstance(v, np.ndarray) and v.size and np.shares_memory(out, v):
                        self.bump("probe.view_along_edge")
                        break
        if isinstance(node, Alias):
            self.bump("probe.alias_task")


def _flatten(keys):
    if isinstance(keys, list):
        for k in keys:
            yield from _flatten(k)
    else:
        yield keys


def _nest(keys, cache):
    if isinstance(keys, list):
        return [_nest(k, cache) for k in keys]
    return cache[keys]


def topo_orders_differ(a, b):
    return a != b
