"""importsim child: ONE fresh interpreter executes ONE import/registration history.

Reads the history (JSON) on stdin, checks the invariants after every step, prints one
JSON result line.  Nothing of dask_array/xarray is imported before the history starts.
"""

from __future__ import annotations

import importlib
import json
import sys
import traceback

OPTIONAL = ("dask_array._rust", "zarr", "tiledb", "h5py", "frisky", "distributed", "sparse", "cupy", "rich", "jinja2",
            "scipy", "numba", "pandas")


def manager_type():
    from xarray.namedarray.parallelcompat import list_chunkmanagers

    m = list_chunkmanagers().get("dask")
    return type(m).__module__ + "." + type(m).__name__ if m is not None else None


def main():
    hist = json.loads(sys.stdin.read())
    registered = False
    ever_registered = False
    imported_xarray_glue_by_name = False
    log = []
    stats = {"imports": 0, "skipped_optional": 0, "steps": 0}

    def fail(i, step, cls, detail):
        print(json.dumps({"status": "violation", "cls": cls, "step": i, "detail": detail, "log": log[-8:], "stats": stats}))
        sys.exit(0)

    def check(i, step):
        x_loaded = "xarray" in sys.modules
        glue = "dask_array._xarray" in sys.modules
        if glue and not (ever_registered or imported_xarray_glue_by_name):
            # not demanded by the statement (loading the glue module registers nothing): a reach probe only
            stats["probe.glue_loaded_without_register"] = 1
        if "dask_array" in sys.modules and "dask_array.xarray" in sys.modules:
            import dask_array.xarray as dx

            active = dx.isactive()
            if active != registered:
                fail(i, step, "isactive-wrong", f"after {step}: isactive() is {active} but registered is {registered}")
        if x_loaded and "xarray.namedarray.parallelcompat" in sys.modules:
            mt = manager_type()
            ours = mt is not None and mt.startswith("dask_array.")
            if ours != registered:
                fail(i, step, "chunk-manager-changed" if ours else "registration-lost",
                     f"after {step}: xarray's 'dask' chunk manager is {mt} but register() {'was' if registered else 'was never'} called")
            log.append([i, step.get("op"), step.get("mod"), mt])
        else:
            log.append([i, step.get("op"), step.get("mod"), None])

    for i, step in enumerate(hist["steps"]):
        stats["steps"] += 1
        op = step["op"]
        try:
            if op == "import":
                try:
                    importlib.import_module(step["mod"])
                    stats["imports"] += 1
                    if step["mod"] == "dask_array._xarray":
                        imported_xarray_glue_by_name = True
                except ImportError as e:
                    msg = str(e)
                    if any(o.split(".")[-1] in msg or o in msg for o in OPTIONAL):
                        stats["skipped_optional"] += 1
                        if step["mod"] == "dask_array._xarray":
                            imported_xarray_glue_by_name = True
                    else:
                        fail(i, step, "import-error", f"import {step['mod']} raised ImportError: {msg[:300]}")
            elif op == "xarray_touch":
                importlib.import_module("dask_array")  # what Dataset.__dask_exprs__ does behind the user's back
            elif op == "build_chunked":
                import numpy as np
                import xarray as xr

                d = xr.DataArray(np.arange(12.0).reshape(3, 4), dims=("a", "b")).chunk({"a": 2})
                typ = type(d.data).__module__
                want = "dask_array" if registered else "dask.array"
                if not typ.startswith(want):
                    fail(i, step, "chunked-array-type-wrong",
                         f"DataArray.chunk() produced a {typ} array but register() {'was' if registered else 'was never'} called")
            elif op == "cache_clear":
                from xarray.namedarray.parallelcompat import list_chunkmanagers

                list_chunkmanagers.cache_clear()
                registered = False
            elif op == "register":
                import dask_array.xarray as dx

                dx.register()
                registered = ever_registered = True
            elif op == "compute_check":
                if registered:
                    r = compute_check()
                    if r:
                        fail(i, step, "xarray-values-differ", r)
            elif op == "isactive":
                import dask_array.xarray as dx

                if dx.isactive() != registered:
                    fail(i, step, "isactive-wrong", f"isactive() is {dx.isactive()} but registered is {registered}")
            else:
                raise RuntimeError(f"unknown op {op}")
        except SystemExit:
            raise
        except Exception as e:  # noqa: BLE001
            print(json.dumps({"status": "harness-error", "detail": f"step {i} {step}: " + "".join(traceback.format_exception(e))[-1500:]}))
            sys.exit(0)
        check(i, step)
    # entry points: none may advertise an xarray chunk manager for this distribution
    try:
        from importlib.metadata import entry_points

        eps = [ep for ep in entry_points(group="xarray.chunkmanagers") if "dask_array" in ep.value]
        if eps:
            fail(len(hist["steps"]), {"op": "entry_points"}, "entry-point-advertised", f"xarray.chunkmanagers entry point(s): {[ep.value for ep in eps]}")
    except SystemExit:
        raise
    except Exception:  # noqa: BLE001
        pass
    print(json.dumps({"status": "ok", "log": log, "stats": stats}))


def _xarray_importable():
    try:
        import xarray  # noqa: F401

        return True
    except ImportError:
        return False


def compute_check():
    import numpy as np
    import xarray as xr

    a = np.arange(24.0).reshape(4, 6)
    nd = xr.DataArray(a, dims=("x", "y"))
    dd = nd.chunk({"x": 2, "y": 3})
    if not type(dd.data).__module__.startswith("dask_array"):
        return f"chunked DataArray is backed by {type(dd.data).__module__}, not dask_array, after register()"
    checks = {
        "mean_x": lambda d: d.mean("x"),
        "add_T": lambda d: (d + d.T.transpose("x", "y")),
        "sel": lambda d: d.isel(x=slice(1, 3), y=[0, 2, 5]),
        "cumsum": lambda d: d.cumsum("y"),
        "rolling": lambda d: d.rolling(y=3).mean(),
        "std": lambda d: d.std(),
        "where": lambda d: d.where(d > 5, -1.0),
    }
    for name, f in checks.items():
        want = np.asarray(f(nd).values)
        got = np.asarray(f(dd).compute(scheduler="sync").values)
        if want.shape != got.shape or not np.allclose(want, got, equal_nan=True):
            return f"xarray computation {name} on a dask_array-backed DataArray differs from the NumPy-backed result"
    return None


if __name__ == "__main__":
    main()
