"""Long-lived simulation worker: executes seeds sequentially with the reset protocol.

Protocol: one JSON object per line on stdin -> one JSON object per line on the
original stdout.  Anything the SUT prints goes to stderr.
"""

from __future__ import annotations

import faulthandler
import importlib
import json
import os
import random
import sys
import traceback

sys.path.insert(0, os.path.dirname(os.path.dirname(os.path.abspath(__file__))))


def main():
    out = os.fdopen(os.dup(1), "w", buffering=1)
    os.dup2(2, 1)
    sys.stdout = sys.stderr
    faulthandler.enable()
    import warnings

    warnings.simplefilter("ignore")
    from dst import common

    common.sut_import()
    common.install_scheduler_guard()
    mods = {}

    def mod(prop):
        if prop not in mods:
            mods[prop] = importlib.import_module(f"dst.props.{prop.lower()}")
        return mods[prop]

    out.write(json.dumps({"ready": True, "hashseed": os.environ.get("PYTHONHASHSEED")}) + "\n")
    for line in sys.stdin:
        line = line.strip()
        if not line:
            continue
        job = json.loads(line)
        cmd = job.get("cmd")
        if cmd == "exit":
            break
        try:
            faulthandler.dump_traceback_later(job.get("timeout", 300), exit=True)
            if cmd == "run":
                res = run_seed(mod(job["prop"]), job["seed"], job["tier"])
            elif cmd == "replay":
                res = exec_case(mod(job["prop"]), job["case"])
            elif cmd == "shrink":
                res = shrink(mod(job["prop"]), job["case"], job["cls"], job.get("budget", 400))
            elif cmd == "verify":
                from dst.props import c07

                res = c07.verify_items(job)
            elif cmd == "match":
                m = mod(job["prop"])
                res = {"matches": match_findings(m, job["case"], job["result"], job["findings"])}
            else:
                res = {"status": "harness-error", "detail": f"unknown cmd {cmd}"}
        except BaseException as e:  # noqa: BLE001
            res = {"status": "harness-error", "detail": "".join(traceback.format_exception(e))[-4000:]}
        finally:
            faulthandler.cancel_dump_traceback_later()
        res["job"] = job.get("id")
        out.write(json.dumps(res, default=_default) + "\n")
    try:
        c07 = sys.modules.get("dst.props.c07")
        if c07 is not None and c07.Verifier.inst is not None:
            c07.Verifier.inst.close()
    except Exception:  # noqa: BLE001
        pass


def _default(o):
    import numpy as np

    if isinstance(o, np.generic):
        return o.item()
    if isinstance(o, np.ndarray):
        return o.tolist()
    return str(o)


def run_seed(m, seed, tier):
    from dst import common

    rng = random.Random(seed)
    common.reset_sut(seed)
    try:
        case = m.gen(rng, tier)
    except common.Invalid as e:
        return {"status": "invalid", "detail": str(e), "seed": seed}
    case["seed"] = seed
    case["hashseed"] = os.environ.get("PYTHONHASHSEED")
    case = json.loads(json.dumps(case, default=_default))  # a case is plain JSON, always
    res = exec_case(m, case)
    res["seed"] = seed
    return res


def exec_case(m, case):
    from dst import common, fakes

    common.reset_sut(case.get("seed", 0))
    fakes.set_phase("build")
    fakes.CURRENT["task"] = None
    del fakes.ALL_SOURCES[:]
    del fakes.ALL_FNS[:]
    fakes._LOCKS.clear()
    fakes.SERIAL[0] = 0
    stats = {}
    log = []
    res = {"prop": m.ID}
    try:
        m.execute(case, stats, log)
        res["status"] = "ok"
    except common.Violation as v:
        res.update(status="violation", vprop=v.prop, cls=v.cls, detail=str(v.detail)[:2000], step=v.step, info=v.info)
    except common.Invalid as e:
        res.update(status="invalid", detail=str(e)[:500])
    except common.HarnessError as e:
        res.update(status="harness-error", detail="HarnessError: " + str(e)[:2000])
    finally:
        import gc

        gc.enable()
    res["stats"] = stats
    res["digest"] = common.digest(log)
    res["loglen"] = len(log)
    if os.environ.get("VERIF_KEEP_LOG"):
        res["log"] = log
    try:
        res["shape"] = common.digest(m.shape_of(case, stats))
        res["nontrivial"] = bool(m.nontrivial(case, stats))
    except Exception:  # noqa: BLE001
        res["shape"] = None
        res["nontrivial"] = False
    res["case"] = case
    return res


def shrink(m, case, cls, budget):
    """Greedy delta-debugging over the prop module's candidate stream: a candidate is
    kept iff it reproduces a violation of the same property and class."""
    tried = 0
    best = case
    improved = True
    while improved and tried < budget:
        improved = False
        for cand in m.candidates(best):
            tried += 1
            if tried > budget:
                break
            r = exec_case(m, cand)
            if r["status"] == "violation" and r["cls"] == cls:
                best = cand
                improved = True
                break
    final = exec_case(m, best)
    final["shrink_tried"] = tried
    return final


def match_findings(m, case, result, findings):
    """A finding matches a violating run iff its precondition holds on the case and the ABLATED
    case (the finding's trigger removed) runs fully clean.  If no single ablation cleans the run
    but the composition of all applicable ones does, the run contains exactly those known problems
    and nothing else, and all of them are reported as matched."""
    table = getattr(m, "FINDING_ABLATIONS", {})
    applicable = []
    for fd in findings:
        if fd.get("class") not in (None, result.get("cls")):
            continue
        ent = table.get(fd["id"])
        if ent is None:
            continue
        pre, abl = ent[0], ent[1]
        # optional third element: may this finding be the SOLE explanation of THIS violation (its class
        # and message)?  A finding whose trigger is present but whose symptom is another one can only be
        # part of a composition with a finding that does explain the reported symptom.
        sole = ent[2] if len(ent) > 2 else None
        try:
            if pre(case, result):
                applicable.append((fd["id"], abl, sole is None or bool(sole(case, result))))
        except Exception:  # noqa: BLE001
            traceback.print_exc()
    out = []
    for fid, abl, sole_ok in applicable:
        if sole_ok and exec_case(m, abl(case))["status"] == "ok":
            out.append(fid)
    if not out and len(applicable) > 1 and any(sole_ok for _, _, sole_ok in applicable):
        c = case
        for _, abl, _ in applicable:
            c = abl(c)
        if exec_case(m, c)["status"] == "ok":
            out = [fid for fid, _, _ in applicable]
    return sorted(set(out))


if __name__ == "__main__":
    main()
