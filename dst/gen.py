"""Typed, online program generator + recipe interpreter.

A *recipe* is plain JSON: ``{"sources": {...}, "steps": [{"op","in","args","out"}...]}``.
The generator applies every candidate step to the real dask_array API as it goes
(so it knows shapes/chunks/dtypes and discards invalid steps); the interpreter
replays a recipe without the generator.  All choices come from the rng handed in.
"""

from __future__ import annotations

import math
import warnings

import numpy as np

from . import fakes
from .common import Invalid

DTYPES = ["f8", "f8", "f8", "i8", "i4", "f4", "u1", "?"]

MAX_ELEMS = 600


# =========================================================================== environment


class Env:
    """Interpreter state: live variables + source/lock/function objects."""

    def __init__(self, recipe_sources=None):
        self.vars = {}
        self.sources = {}  # name -> dict(obj=, user=ndarray given by 'user', spec=)
        self.locks = {}
        self.fns = {}
        self.rngs = {}
        self.specs = recipe_sources if recipe_sources is not None else {}

    def source(self, name):
        if name not in self.sources:
            spec = self.specs[name]
            self.sources[name] = make_source(name, spec, self)
        return self.sources[name]

    def lock(self, name):
        if name not in self.locks:
            self.locks[name] = fakes.new_lock(name)
        return self.locks[name]


def source_data(spec):
    shape = tuple(spec["shape"])
    n = int(np.prod(shape)) if shape else 1
    base = np.arange(n, dtype="i8").reshape(shape) + int(spec.get("offset", 0))
    dt = np.dtype(spec["dtype"])
    if dt.kind == "b":
        a = (base % 3) == 0
    elif dt.kind == "u":
        a = (base % 200).astype(dt)
    elif dt.kind == "f" and spec.get("frac"):
        a = base.astype(dt) / 4 + 0.25
    else:
        a = base.astype(dt)
    return np.ascontiguousarray(a)


def make_source(name, spec, env):
    a = source_data(spec)
    if spec.get("masked"):
        a = np.ma.masked_array(a, mask=(np.arange(a.size).reshape(a.shape) % 4 == 1))
    kind = spec.get("kind", "ndarray")
    if kind == "ndarray":
        return {"obj": a, "user": a, "orig": a.copy(), "spec": spec}
    lock = env.lock(spec["lock"]) if isinstance(spec.get("lock"), str) else None
    cls = fakes.SimSource if spec.get("tokenizable", True) else fakes.OpaqueSimSource
    s = cls(
        a,
        storage_grid=spec.get("grid"),
        name=name,
        tokenizable=spec.get("tokenizable", True),
        lock=lock,
        fancy_ok=spec.get("fancy", True),
        lazy=spec.get("lazy", False),
    )
    return {"obj": s, "user": a, "orig": a.copy(), "spec": spec}


# =========================================================================== op table

OPS = {}


def op(name, arity=1, weight=1.0, tags=()):
    def deco(cls):
        cls.name = name
        cls.arity = arity
        cls.weight = weight
        cls.tags = set(tags)
        OPS[name] = cls
        return cls

    return deco


def _da():
    import dask_array as da

    return da


def known(x):
    return not any(math.isnan(c) for dim in x.chunks for c in dim)


def rand_chunks(rng, shape):
    """A chunk spec for ``shape``: int, tuple of ints, explicit, -1."""
    mode = rng.choice(["int", "tuple", "explicit", "explicit", "one"])
    if not shape:
        return ()
    if mode == "one":
        return tuple(-1 for _ in shape)
    if mode == "int":
        return rng.randint(1, max(1, max(shape)))
    if mode == "tuple":
        return tuple(rng.randint(1, max(1, s)) for s in shape)
    out = []
    for s in shape:
        out.append(tuple(split_dim(rng, s)))
    return tuple(out)


def split_dim(rng, s):
    if s == 0:
        return [0]
    k = rng.randint(1, min(4, s))
    cuts = sorted(rng.sample(range(1, s), k - 1)) if k > 1 else []
    b = [0] + cuts + [s]
    return [b[i + 1] - b[i] for i in range(len(b) - 1)]


def jsonable_chunks(c):
    if isinstance(c, tuple):
        return [jsonable_chunks(x) for x in c]
    return c


IDENTITY = ["fresh"]  # "fresh": equal inner tuples are distinct objects; "shared": one object per value


def from_json_chunks(c, _memo=None):
    """Chunk spec from its JSON form.  Equal inputs can be built from the SAME objects or from equal
    distinct ones (``a = (5, 5); rechunk((a, a))`` vs ``rechunk(((5, 5), (5, 5)))``): which of the two
    happens is the harness's choice (IDENTITY), never something a name or a value may depend on."""
    top = _memo is None
    if top:
        _memo = {}
    if isinstance(c, list):
        t = tuple(from_json_chunks(x, _memo) for x in c)
        if IDENTITY[0] == "shared":
            return _memo.setdefault(t, t)
        return t
    return c


def from_json_index(ix):
    out = []
    for i in ix:
        if isinstance(i, list):
            out.append(slice(*i))
        elif i == "None":
            out.append(None)
        elif i == "...":
            out.append(Ellipsis)
        elif isinstance(i, dict):
            if "fancy" in i:
                out.append(list(i["fancy"]))
            elif "bool" in i:
                out.append(np.array(i["bool"], dtype=bool))
        else:
            out.append(int(i))
    return tuple(out)


# ---- leaves ---------------------------------------------------------------------


@op("from_array", arity=0, weight=3, tags={"leaf"})
class FromArrayOp:
    @staticmethod
    def gen(rng, ctx, ins):
        name = f"s{len(ctx.recipe['sources'])}"
        if ctx.sources_reuse and ctx.recipe["sources"] and rng.random() < 0.5:
            name = rng.choice(sorted(ctx.recipe["sources"]))
            spec = ctx.recipe["sources"][name]
        else:
            nd = rng.choice([1, 1, 2, 2, 2, 3])
            shape = [rng.choice([1, 2, 3, 4, 5, 6, 7, 8]) for _ in range(nd)]
            if rng.random() < 0.04:
                shape[rng.randrange(nd)] = 0
            spec = {
                "shape": shape,
                "dtype": rng.choice(ctx.dtypes),
                "offset": rng.choice([0, 1, 10, 100]),
                "kind": "sim" if rng.random() < ctx.p_simsource else "ndarray",
            }
            if spec["kind"] == "sim":
                if rng.random() < 0.5:
                    spec["grid"] = [rng.randint(1, max(1, s)) for s in shape]
                if rng.random() < ctx.p_untokenizable:
                    spec["tokenizable"] = False
                if rng.random() < ctx.p_simlock:
                    spec["lock"] = "L0"
                if rng.random() < ctx.p_lazy_source:
                    spec["lazy"] = True
            elif rng.random() < ctx.p_masked:
                spec["masked"] = True
            ctx.recipe["sources"][name] = spec
        shape = tuple(spec["shape"])
        r = rng.random()
        if r < ctx.p_auto_chunks:
            chunks = rng.choice(["auto", "auto", "64B", "128B", "1KiB"])
        elif rng.random() < ctx.p_fine_chunks:
            chunks = 1  # one element per block along every axis: deep reduction trees, many edges
        else:
            chunks = jsonable_chunks(rand_chunks(rng, shape))
        args = {"src": name, "chunks": chunks}
        if spec["kind"] == "sim":
            if rng.random() < 0.3:
                args["inline_array"] = True
            if rng.random() < 0.2:
                args["fancy"] = False
            if spec.get("lock"):
                args["lock"] = spec["lock"]
            elif rng.random() < 0.1:
                args["lock"] = True
            if rng.random() < ctx.p_custom_getitem and not spec.get("lazy"):
                args["getitem"] = "rec"
            if rng.random() < ctx.p_asarray_false and not spec.get("lazy"):
                args["asarray"] = False  # blocks reach the tasks un-coerced (what asanyarray() of a raw operand does)
        elif rng.random() < 0.1:
            args["lock"] = True
        return args

    @staticmethod
    def apply(env, ins, a):
        da = _da()
        s = env.source(a["src"])
        kw = {}
        for k in ("inline_array", "fancy", "lock", "asarray"):
            if k in a:
                kw[k] = a[k]
        if isinstance(kw.get("lock"), str):
            kw["lock"] = env.lock(kw["lock"])
        if a.get("getitem") == "rec":
            kw["getitem"] = fakes.rec_getter
        return da.from_array(s["obj"], chunks=from_json_chunks(a["chunks"]), **kw)


@op("creation", arity=0, weight=1.2, tags={"leaf"})
class CreationOp:
    @staticmethod
    def gen(rng, ctx, ins):
        kind = rng.choice(["ones", "zeros", "full", "arange", "linspace", "eye"])
        dtype = rng.choice(["f8", "i8", "f4"])
        if kind in ("ones", "zeros", "full"):
            nd = rng.choice([1, 2, 2, 3])
            shape = [rng.randint(1, 7) for _ in range(nd)]
            chunks = jsonable_chunks(rand_chunks(rng, tuple(shape)))
            if rng.random() < ctx.p_ragged_creation:
                # many small blocks with ONE odd block at a seeded position ((2, 1, 2, 2), (1, 1, 2, 1, 1) ...)
                shape, chunks = [], []
                for _ in range(nd):
                    nb = rng.randint(4, 6)
                    base = rng.choice([1, 2])
                    row = [base] * nb
                    row[rng.randrange(nb)] = 3 - base
                    chunks.append(row)
                    shape.append(sum(row))
            return {"kind": kind, "shape": shape, "chunks": chunks, "dtype": dtype, "fill": rng.randint(-3, 9)}
        if kind == "arange":
            n = rng.randint(1, 24)
            return {"kind": kind, "n": n, "chunks": rng.randint(1, n), "dtype": dtype}
        if kind == "linspace":
            n = rng.randint(2, 16)
            return {"kind": kind, "n": n, "chunks": rng.randint(1, n)}
        n = rng.randint(1, 8)
        return {"kind": kind, "n": n, "chunks": rng.randint(1, n), "k": rng.randint(-2, 2)}

    @staticmethod
    def apply(env, ins, a):
        da = _da()
        k = a["kind"]
        if k == "ones":
            return da.ones(tuple(a["shape"]), chunks=from_json_chunks(a["chunks"]), dtype=a["dtype"])
        if k == "zeros":
            return da.zeros(tuple(a["shape"]), chunks=from_json_chunks(a["chunks"]), dtype=a["dtype"])
        if k == "full":
            return da.full(tuple(a["shape"]), a["fill"], chunks=from_json_chunks(a["chunks"]), dtype=a["dtype"])
        if k == "arange":
            return da.arange(a["n"], chunks=a["chunks"], dtype=a["dtype"])
        if k == "linspace":
            return da.linspace(0, a["n"] - 1, a["n"], chunks=a["chunks"])
        return da.eye(a["n"], chunks=a["chunks"], k=a["k"])


BITGENS = [None, "Philox", "MT19937", "SFC64", "PCG64DXSM"]  # None = the default (PCG64)
RANDOM_DISTS = [
    ("normal", 2), ("uniform", 2), ("random", 0), ("standard_normal", 0), ("integers", 2), ("poisson", 1),
    ("exponential", 1), ("gamma", 2), ("binomial", 2), ("beta", 2), ("chisquare", 1), ("standard_exponential", 0),
    ("choice", 0), ("choice", 0),
]
RS_DISTS = [
    ("normal", 2), ("uniform", 2), ("random_sample", 0), ("standard_normal", 0), ("randint", 2), ("poisson", 1),
    ("exponential", 1), ("gamma", 2), ("binomial", 2), ("beta", 2), ("chisquare", 1), ("choice", 0), ("choice", 0),
]


def dist_params(rng, dist):
    if dist in ("normal",):
        return [rng.choice([0.0, 1.5, -2.0]), rng.choice([1.0, 0.5, 2.0])]
    if dist == "uniform":
        return [rng.choice([0.0, -1.0]), rng.choice([1.0, 3.0])]
    if dist in ("integers", "randint"):
        return [rng.choice([0, 1]), rng.choice([5, 100])]
    if dist in ("poisson", "exponential", "chisquare"):
        return [rng.choice([1.0, 2.5, 4.0])]
    if dist == "gamma":
        return [rng.choice([1.0, 2.0]), rng.choice([1.0, 3.0])]
    if dist == "binomial":
        return [rng.choice([5, 10]), rng.choice([0.25, 0.5])]
    if dist == "beta":
        return [rng.choice([1.0, 2.0]), rng.choice([1.5, 3.0])]
    if dist == "choice":
        return [rng.choice([5, 20, 100])]
    return []


@op("random", arity=0, weight=0.0, tags={"leaf", "random"})
class RandomOp:
    """Random leaf. ``ins`` may carry array-valued parameters (arity decided in gen)."""

    @staticmethod
    def gen(rng, ctx, ins):
        # "twin": a second generator seeded exactly like an earlier one, drawing the same distribution,
        # size and parameters as that generator's FIRST draw but with another chunking -- equal seeds,
        # different block grids (the pair a hand-built random name must tell apart)
        firsts = {}
        for s_ in ctx.recipe["steps"]:
            if s_["op"] == "random":
                firsts.setdefault(s_["args"]["gen"], s_)
        firsts = [s_ for s_ in firsts.values() if not s_["args"].get("array_param")]
        if firsts and rng.random() < ctx.p_random_twin:
            base = rng.choice(sorted(firsts, key=lambda s_: s_["out"]))["args"]
            gname = f"t{len(ctx.recipe['generators'])}"
            ctx.recipe["generators"][gname] = dict(ctx.recipe["generators"][base["gen"]])
            shape = tuple(base["shape"])
            chunks = jsonable_chunks(rand_chunks(rng, shape))
            if ctx.recipe["generators"][gname]["kind"] == "default_rng" and rng.random() < 0.5:
                # equal seed, ANOTHER bit generator (PCG64 / Philox / MT19937 / SFC64), everything else
                # -- chunks included -- identical: two different streams a name/seed scheme must tell apart
                others = [b for b in BITGENS if b != ctx.recipe["generators"][gname].get("bitgen")]
                ctx.recipe["generators"][gname]["bitgen"] = rng.choice(others)
                return {"gen": gname, "dist": base["dist"], "shape": list(shape), "chunks": base["chunks"], "params": list(base["params"])}
            if rng.random() < 0.5:
                # same number of blocks per axis, shifted boundaries
                old = normalize_like(base["chunks"], shape)
                chunks = [list(shift_bounds(rng, c)) for c in old] if old else chunks
            return {"gen": gname, "dist": base["dist"], "shape": list(shape), "chunks": chunks, "params": list(base["params"])}
        rsteps = [s_ for s_ in ctx.recipe["steps"] if s_["op"] == "random" and not s_["args"].get("array_param")]
        if rsteps and rng.random() < ctx.p_random_sibling:
            # a second array with the identical spec drawn from the SAME generator right after the first
            # (a different realization that a careless name/seed scheme would conflate with the first)
            return dict(rng.choice(sorted(rsteps, key=lambda s_: s_["out"]))["args"])
        gname = f"g{rng.randrange(ctx.n_generators)}"
        if gname not in ctx.recipe["generators"]:
            ctx.recipe["generators"][gname] = {
                "kind": rng.choice(["default_rng", "default_rng", "RandomState", "module"]),
                "seed": rng.randint(0, 1000),
            }
            if ctx.recipe["generators"][gname]["kind"] == "default_rng" and rng.random() < 0.3:
                ctx.recipe["generators"][gname]["bitgen"] = rng.choice(BITGENS[1:])
        g = ctx.recipe["generators"][gname]
        dists = RANDOM_DISTS if g["kind"] == "default_rng" else RS_DISTS
        dist, npar = rng.choice(dists)
        nd = rng.choice([1, 1, 2, 2, 3])
        shape = [rng.randint(1, 7) for _ in range(nd)]
        chunks = jsonable_chunks(rand_chunks(rng, tuple(shape)))
        if rng.random() < ctx.p_random_auto:
            chunks = "auto"  # da.random's default: the block grid is resolved against array.chunk-size
            shape = [rng.randint(3, 8) for _ in range(nd)]
        params = dist_params(rng, dist)
        args = {"gen": gname, "dist": dist, "shape": shape, "chunks": chunks, "params": params}
        # array-valued parameter: param index -> var name (broadcastable, non-negative handled by abs+1)
        if npar and ctx.p_array_param and rng.random() < ctx.p_array_param and dist in (
            "normal", "uniform", "poisson", "exponential", "gamma", "chisquare", "beta"
        ):
            cands = []
            for v in sorted(ctx.env.vars):
                x = ctx.env.vars[v]
                if known(x) and x.dtype.kind in "fiu" and _broadcastable(x.shape, tuple(shape)):
                    cands.append(v)
            if cands:
                args["array_param"] = {"index": rng.randrange(npar), "var": rng.choice(cands)}
        return args

    @staticmethod
    def extra_inputs(a):
        ap = a.get("array_param")
        return [ap["var"]] if ap else []

    @staticmethod
    def apply(env, ins, a):
        da = _da()
        g = get_generator(env, a["gen"])
        params = list(a["params"])
        ap = a.get("array_param")
        if ap:
            v = env.vars[ap["var"]]
            params[ap["index"]] = abs(v).astype("f8") % 3 + 1.0
        f = getattr(g, a["dist"])
        return f(*params, size=tuple(a["shape"]), chunks=from_json_chunks(a["chunks"]))


@op("diag_ops", weight=0.6)
class DiagOp:
    """diagonal / trace / diag / vindex: layers whose block coordinates are numpy integers."""

    @staticmethod
    def gen(rng, ctx, ins):
        x = ins[0]
        if not known(x) or 0 in x.shape:
            return None
        kind = rng.choice(["diagonal", "trace", "diag", "vindex"])
        if kind in ("diagonal", "trace"):
            if x.ndim < 2:
                return None
            a1, a2 = rng.sample(range(x.ndim), 2)
            return {"kind": kind, "offset": rng.randint(-2, 2), "axis1": a1, "axis2": a2}
        if kind == "diag":
            if x.ndim not in (1, 2):
                return None
            return {"kind": "diag", "k": rng.randint(-2, 2)}
        if x.ndim < 1:
            return None
        n = rng.randint(1, 4)
        return {"kind": "vindex", "idx": [[rng.randrange(s_) for _ in range(n)] for s_ in x.shape]}

    @staticmethod
    def apply(env, ins, a):
        da = _da()
        x = ins[0]
        if a["kind"] == "diagonal":
            return da.diagonal(x, offset=a["offset"], axis1=a["axis1"], axis2=a["axis2"])
        if a["kind"] == "trace":
            return da.trace(x, offset=a["offset"], axis1=a["axis1"], axis2=a["axis2"])
        if a["kind"] == "diag":
            return da.diag(x, k=a["k"])
        return x.vindex[tuple(a["idx"])]


def normalize_like(chunks, shape):
    """Explicit per-axis chunk tuples for a JSON chunk spec, or None if it needs the library to resolve."""
    try:
        from dask_array._core_utils import normalize_chunks

        return [[int(v) for v in c] for c in normalize_chunks(from_json_chunks(chunks), tuple(shape), dtype="f8")]
    except Exception:  # noqa: BLE001
        return None


def shift_bounds(rng, c):
    """Same number of blocks, other boundaries (when the axis has room for it)."""
    n, k = sum(c), len(c)
    if k < 2 or n <= k:
        return c
    cuts = sorted(rng.sample(range(1, n), k - 1))
    b = [0] + cuts + [n]
    return [b[i + 1] - b[i] for i in range(k)]


def get_generator(env, gname):
    if gname in env.rngs:
        return env.rngs[gname]
    da = _da()
    spec = env.specs_generators[gname]
    if spec["kind"] == "default_rng":
        if spec.get("bitgen"):
            g = da.random.default_rng(getattr(np.random, spec["bitgen"])(spec["seed"]))
        else:
            g = da.random.default_rng(spec["seed"])
    elif spec["kind"] == "RandomState":
        g = da.random.RandomState(spec["seed"])
    else:
        da.random.seed(spec["seed"])
        g = da.random
    env.rngs[gname] = g
    return g


def _broadcastable(small, big):
    if len(small) > len(big):
        return False
    for s, b in zip(small[::-1], big[::-1]):
        if s != b and s != 1:
            return False
    return True


# ---- unary ---------------------------------------------------------------------


@op("unary", weight=3)
class UnaryOp:
    FNS = ["neg", "abs", "addc", "mulc", "sqrtabs", "astype", "square", "floor_div", "isnan", "clip", "sin", "exp_small",
           "positive", "invert_or_neg", "round", "conj_real"]

    @staticmethod
    def gen(rng, ctx, ins):
        f = rng.choice(ctx.unary_fns or UnaryOp.FNS)
        a = {"f": f}
        if f in ("addc", "mulc"):
            a["c"] = rng.choice([1, 2, -1, 3, 0.5])
        if f == "astype":
            a["dtype"] = rng.choice(["f8", "f4", "i8", "i4", "c16"])
        return a

    @staticmethod
    def apply(env, ins, a):
        da = _da()
        x = ins[0]
        f = a["f"]
        if f == "neg":
            return -x if x.dtype.kind != "b" else ~x
        if f == "abs":
            return abs(x)
        if f == "addc":
            return x + a["c"]
        if f == "mulc":
            return x * a["c"]
        if f == "sqrtabs":
            return da.sqrt(abs(x).astype("f8"))
        if f == "astype":
            return x.astype(a["dtype"])
        if f == "square":
            return x * x
        if f == "floor_div":
            return x // 2 if x.dtype.kind != "b" else x
        if f == "isnan":
            return da.isnan(x.astype("f8"))
        if f == "clip":
            return da.clip(x, 1, 20)
        if f == "sin":
            return da.sin(x.astype("f8"))
        if f == "exp_small":
            return da.exp((x % 3).astype("f8")) if x.dtype.kind != "b" else x
        if f == "positive":
            return +x if x.dtype.kind != "b" else x
        if f == "invert_or_neg":
            return ~x if x.dtype.kind in "biu" else -x
        if f == "round":
            return da.round(x.astype("f8") / 3, 1)
        if f == "conj_real":
            return da.real(da.conj(x))
        raise Invalid(f)


@op("transpose", weight=1.5)
class TransposeOp:
    @staticmethod
    def gen(rng, ctx, ins):
        x = ins[0]
        if x.ndim < 2:
            return None
        kind = rng.choice(["T", "perm", "swap", "move"])
        if kind == "perm":
            p = list(range(x.ndim))
            rng.shuffle(p)
            return {"kind": kind, "axes": p}
        if kind in ("swap", "move"):
            return {"kind": kind, "a": rng.randrange(x.ndim), "b": rng.randrange(x.ndim)}
        return {"kind": "T"}

    @staticmethod
    def apply(env, ins, a):
        da = _da()
        x = ins[0]
        if a["kind"] == "T":
            return x.T
        if a["kind"] == "perm":
            return x.transpose(tuple(a["axes"]))
        if a["kind"] == "swap":
            return da.swapaxes(x, a["a"], a["b"])
        return da.moveaxis(x, a["a"], a["b"])


def _factorizations(n):
    out = []
    for i in range(1, n + 1):
        if n % i == 0:
            out.append([i, n // i])
    return out


@op("reshape", weight=1.2)
class ReshapeOp:
    @staticmethod
    def gen(rng, ctx, ins):
        x = ins[0]
        if not known(x):
            return None
        n = int(np.prod(x.shape)) if x.shape else 1
        kind = rng.choice(["ravel", "fact", "fact", "flatten_tail", "minus1"])
        if kind == "ravel" or n == 0:
            return {"kind": "ravel"}
        if kind == "fact":
            return {"kind": "shape", "shape": rng.choice(_factorizations(n))}
        if kind == "flatten_tail" and x.ndim >= 2:
            return {"kind": "shape", "shape": [x.shape[0], -1]}
        return {"kind": "shape", "shape": [-1, rng.choice([d for d in range(1, n + 1) if n % d == 0])]}

    @staticmethod
    def apply(env, ins, a):
        x = ins[0]
        if a["kind"] == "ravel":
            return x.ravel()
        return x.reshape(tuple(a["shape"]))


@op("expand_squeeze", weight=0.8)
class ExpandSqueezeOp:
    @staticmethod
    def gen(rng, ctx, ins):
        x = ins[0]
        if rng.random() < 0.5 or 1 not in x.shape:
            return {"kind": "expand", "axis": rng.randint(0, x.ndim)}
        axes = [i for i, s in enumerate(x.shape) if s == 1]
        return {"kind": "squeeze", "axis": rng.choice(axes + [None])}

    @staticmethod
    def apply(env, ins, a):
        da = _da()
        x = ins[0]
        if a["kind"] == "expand":
            return da.expand_dims(x, a["axis"])
        return da.squeeze(x, axis=a["axis"])


@op("flip_roll", weight=0.8)
class FlipRollOp:
    @staticmethod
    def gen(rng, ctx, ins):
        x = ins[0]
        if x.ndim == 0 or not known(x):
            return None
        ax = rng.randrange(x.ndim)
        if rng.random() < 0.5:
            return {"kind": "flip", "axis": ax}
        return {"kind": "roll", "axis": ax, "shift": rng.randint(-3, 3)}

    @staticmethod
    def apply(env, ins, a):
        da = _da()
        x = ins[0]
        if a["kind"] == "flip":
            return da.flip(x, a["axis"])
        return da.roll(x, a["shift"], axis=a["axis"])


def rand_slice(rng, n, allow_step=True):
    if n == 0:
        return [None, None, None]
    r = rng.random()
    if r < 0.2:
        return [None, None, None]
    a = rng.randint(-n, n)
    b = rng.randint(-n, n + 1)
    if rng.random() < 0.08:
        # slices may start or stop outside the axis (NumPy clips them): x[-9::-1], x[2:99]
        a = rng.randint(-2 * n - 1, 2 * n)
        b = rng.randint(-2 * n - 1, 2 * n + 1)
    step = None
    if allow_step and rng.random() < 0.25:
        step = rng.choice([2, 3, -1, -2])
    if rng.random() < 0.3:
        a = None
    if rng.random() < 0.3:
        b = None
    return [a, b, step]


@op("getitem", weight=3.5)
class GetitemOp:
    @staticmethod
    def gen(rng, ctx, ins):
        x = ins[0]
        if x.ndim == 0:
            return None
        kn = known(x)
        ix = []
        fancy_used = False
        for ax, n in enumerate(x.shape):
            if not kn or (isinstance(n, float) and math.isnan(n)):
                ix.append([None, None, None])
                continue
            r = rng.random()
            if r < 0.55:
                ix.append(rand_slice(rng, n, ctx.allow_step))
            elif r < 0.7 and n > 0:
                ix.append(rng.randint(-n, n - 1))
            elif r < 0.8 and n > 0 and not fancy_used and ctx.allow_fancy:
                k = rng.randint(1, min(5, n + 2))
                ix.append({"fancy": [rng.randint(-n, n - 1) for _ in range(k)]})
                fancy_used = True
            elif r < 0.86 and n > 0 and not fancy_used and ctx.allow_fancy:
                ix.append({"bool": [rng.random() < 0.5 for _ in range(n)]})
                fancy_used = True
            else:
                ix.append([None, None, None])
        if fancy_used:
            # int + slice + array index: NumPy moves the advanced dims first, dask_array (like dask)
            # does not -- a C12 (pure indexing semantics) matter, kept out of every simulated property
            ix = [[i, i + 1 if i != -1 else None, None] if isinstance(i, int) else i for i in ix]
        if rng.random() < 0.12:
            ix.insert(rng.randint(0, len(ix)), "None")
        if rng.random() < 0.15 and len(ix) > 1:
            # trailing dims implied
            ix = ix[: rng.randint(1, len(ix))]
        elif rng.random() < 0.08:
            k = rng.randint(0, len(ix))
            ix = ix[:k] + ["..."] if k < len(ix) else ix
            if ix.count("...") > 1:
                return None
        return {"index": ix}

    @staticmethod
    def apply(env, ins, a):
        return ins[0][from_json_index(a["index"])]


@op("rechunk", weight=3)
class RechunkOp:
    @staticmethod
    def gen(rng, ctx, ins):
        x = ins[0]
        if not known(x) or x.ndim == 0:
            return None
        r = rng.random()
        if r < 0.1:
            return {"chunks": "auto"}
        if r < 0.2:
            ax = rng.randrange(x.ndim)
            return {"dict": {str(ax): rng.choice([-1, rng.randint(1, max(1, x.shape[ax]))])}}
        a = {"chunks": jsonable_chunks(rand_chunks(rng, x.shape))}
        same = [i for i in range(1, x.ndim) if x.shape[i] == x.shape[0] and x.shape[0] > 1]
        if same and rng.random() < 0.5:
            # equal explicit splits on two axes of equal length ((a, a) with one or two tuple objects)
            row = split_dim(rng, int(x.shape[0]))
            a["chunks"] = [row if (i == 0 or i in same) else [int(x.shape[i])] for i in range(x.ndim)]
        if rng.random() < 0.1:
            a["balance"] = True
        if rng.random() < 0.15:
            a["threshold"] = rng.choice([1, 2, 4])
        if rng.random() < 0.15:
            a["block_size_limit"] = rng.choice([16, 64, 256])
        return a

    @staticmethod
    def apply(env, ins, a):
        x = ins[0]
        if "dict" in a:
            return x.rechunk({int(k): v for k, v in a["dict"].items()})
        kw = {k: a[k] for k in ("balance", "threshold", "block_size_limit") if k in a}
        return x.rechunk(from_json_chunks(a["chunks"]), **kw)


REDUCTIONS = ["sum", "sum", "prod", "min", "max", "mean", "var", "std", "any", "all", "argmin", "argmax", "nansum",
              "nanmax", "nanmean"]


@op("reduction", weight=3)
class ReductionOp:
    @staticmethod
    def gen(rng, ctx, ins):
        x = ins[0]
        prev = [s_ for s_ in ctx.recipe["steps"] if s_["op"] == "reduction" and ctx.env.vars.get(s_["in"][0]) is x]
        if prev and rng.random() < ctx.p_reduction_twin:
            # the same reduction of the same input under another tree fan-in
            a = dict(rng.choice(sorted(prev, key=lambda s_: s_["out"]))["args"])
            a["split_every"] = rng.choice([v for v in (2, 3, 4, 8) if v != a.get("split_every")])
            return a
        f = rng.choice(["argmin", "argmax"]) if rng.random() < ctx.p_arg_reduction else rng.choice(REDUCTIONS)
        if f in ("argmin", "argmax") and any(ctx.env.vars.get(v_) is x for v_ in ctx.inexact):
            f = rng.choice(["min", "max"])  # an INDEX over values carrying rounding noise is not a function of the program
        a = {"f": f}
        if 0 in x.shape and f in ("min", "max", "argmin", "argmax", "nanmax"):
            return None
        if x.ndim == 0:
            return {"f": f}
        if f in ("argmin", "argmax"):
            a["axis"] = rng.choice([None] + list(range(x.ndim)))
            if a["axis"] is not None and not known(x):
                pass
        else:
            r = rng.random()
            if r < 0.25:
                a["axis"] = None
            elif r < 0.75:
                a["axis"] = rng.randrange(-x.ndim, x.ndim)
            else:
                k = rng.randint(1, x.ndim)
                a["axis"] = sorted(rng.sample(range(x.ndim), k))
            if rng.random() < 0.25:
                a["keepdims"] = True
        if rng.random() < 0.3:
            a["split_every"] = rng.choice([2, 3, 4])
        return a

    @staticmethod
    def apply(env, ins, a):
        da = _da()
        x = ins[0]
        if x.dtype.kind == "c" and a["f"] in ("min", "max", "argmin", "argmax", "nanmax"):
            raise Invalid("complex ordering")
        kw = {}
        ax = a.get("axis", None)
        if isinstance(ax, list):
            ax = tuple(ax)
        kw["axis"] = ax
        if "keepdims" in a:
            kw["keepdims"] = a["keepdims"]
        if "split_every" in a:
            kw["split_every"] = a["split_every"]
        f = getattr(da, a["f"])
        return f(x, **kw)


@op("cumulative", weight=1.2)
class CumulativeOp:
    @staticmethod
    def gen(rng, ctx, ins):
        x = ins[0]
        if x.ndim == 0 or not known(x):
            return None
        a = {"f": rng.choice(["cumsum", "cumsum", "cumprod", "nancumsum"]), "axis": rng.randrange(x.ndim)}
        if rng.random() < 0.3:
            a["method"] = "blelloch"
        if rng.random() < 0.1:
            a["axis"] = None
        if rng.random() < 0.3 and x.dtype.kind in "fiu":
            # the generic public entry point with RAW ufuncs as the combining operator (what xarray's scan
            # passes): da.cumreduction(np.cumsum, np.add, 0, x, axis)
            a = {"f": "cumreduction", "ufunc": rng.choice(["add", "add", "multiply", "maximum"]), "axis": rng.randrange(x.ndim)}
            if rng.random() < 0.25:
                a["method"] = "blelloch"
        return a

    @staticmethod
    def apply(env, ins, a):
        da = _da()
        x = ins[0]
        kw = {}
        if "method" in a:
            kw["method"] = a["method"]
        if a["f"] == "cumreduction":
            func, binop, ident = {"add": (np.cumsum, np.add, 0), "multiply": (np.cumprod, np.multiply, 1),
                                  "maximum": (np.maximum.accumulate, np.maximum, -np.inf)}[a["ufunc"]]
            if a["ufunc"] == "maximum":
                x = x.astype("f8")
            return da.cumreduction(func, binop, ident, x, axis=a["axis"], dtype=x.dtype, **kw)
        return getattr(da, a["f"])(x, axis=a["axis"], **kw)


@op("diff", weight=0.6)
class DiffOp:
    @staticmethod
    def gen(rng, ctx, ins):
        x = ins[0]
        if x.ndim == 0 or not known(x):
            return None
        ax = rng.randrange(x.ndim)
        if x.shape[ax] < 2:
            return None
        return {"axis": ax, "n": rng.choice([1, 1, 2])}

    @staticmethod
    def apply(env, ins, a):
        return _da().diff(ins[0], n=a["n"], axis=a["axis"])


@op("window", weight=1.0)
class WindowOp:
    @staticmethod
    def gen(rng, ctx, ins):
        x = ins[0]
        if x.ndim == 0 or not known(x):
            return None
        ax = rng.randrange(x.ndim)
        n = x.shape[ax]
        if n < 2:
            return None
        w = rng.randint(1, min(4, n))
        a = {"axis": ax, "w": w}
        if rng.random() < 0.7:
            a["reduce"] = rng.choice(["mean", "sum", "max", "min", "std"])
        return a

    @staticmethod
    def apply(env, ins, a):
        da = _da()
        v = da.sliding_window_view(ins[0], a["w"], axis=a["axis"])
        if "reduce" in a:
            y = getattr(v, a["reduce"])(axis=-1)
            if a.get("ablate"):
                # known-finding ablation (F21): same shape and dtype, no sliding-window machinery
                x = ins[0]
                ax = a["axis"] % x.ndim
                return x[(slice(None),) * ax + (slice(0, x.shape[ax] - a["w"] + 1),)].astype(y.dtype)
            return y
        return v


def _mo_fn(x):
    return x + 1


def _mo_smooth(x):
    out = x.astype("f8").copy()
    if x.ndim and x.shape[0] > 2:
        out[1:-1] = (out[:-2] + out[2:]) / 2
    return out


def _mb_scale(x):
    return x * 2


def _mb_blockid(x, block_id=None):
    return x + sum(block_id)


def _mb_blockinfo(x, block_info=None):
    loc = block_info[0]["array-location"]
    return x + sum(lo for lo, hi in loc)


def _mb_inplace(x):
    x = x.copy()
    x += 1
    return x


fakes.FN_TABLE.update(
    mo_fn=_mo_fn, mo_smooth=_mo_smooth, mb_scale=_mb_scale, mb_blockid=_mb_blockid, mb_blockinfo=_mb_blockinfo,
    mb_inplace=_mb_inplace,
)


def get_fn(env, name, rec):
    if not rec:
        return fakes.FN_TABLE[name]
    key = name
    if key not in env.fns:
        env.fns[key] = fakes.RecFn(fakes.FN_TABLE[name], name)
    return env.fns[key]


@op("map_overlap", weight=0.8)
class MapOverlapOp:
    @staticmethod
    def gen(rng, ctx, ins):
        x = ins[0]
        if x.ndim == 0 or not known(x) or 0 in x.shape:
            return None
        depth = rng.randint(0, 2)
        if any(min(c) < depth for c in x.chunks):
            return None
        return {"fn": rng.choice(["mo_fn", "mo_smooth"]), "depth": depth,
                "boundary": rng.choice(["reflect", "none", "nearest", "periodic", 0]), "rec": ctx.rec_fns}

    @staticmethod
    def apply(env, ins, a):
        da = _da()
        x = ins[0]
        f = get_fn(env, a["fn"], a.get("rec"))
        kw = {}
        if a["fn"] == "mo_smooth":
            kw["dtype"] = "f8"
        else:
            kw["dtype"] = x.dtype
        return da.map_overlap(f, x, depth=a["depth"], boundary=a["boundary"], **kw)


def make_scaler(k):
    """A closure factory: every call returns a NEW function object over the same code object; what it
    computes is in the closure cell (the kind of user function tokenized by value, not by import path)."""
    def scale_by(x):
        return x * k
    return scale_by


@op("map_blocks", weight=1.0)
class MapBlocksOp:
    @staticmethod
    def gen(rng, ctx, ins):
        x = ins[0]
        if x.dtype.kind == "b":
            return None
        prev = [s_ for s_ in ctx.recipe["steps"] if s_["op"] == "map_blocks" and s_["args"].get("fn") == "closure"
                and ctx.env.vars.get(s_["in"][0]) is x]
        if prev and rng.random() < 0.6:
            # a sibling closure from the same factory with another captured value, over the SAME input
            k0 = prev[-1]["args"]["k"]
            return {"fn": "closure", "k": rng.choice([k for k in (2, 3, 5, 10) if k != k0])}
        if rng.random() < ctx.p_closure_fn:
            return {"fn": "closure", "k": rng.choice([2, 3, 5, 10])}
        return {"fn": rng.choice(["mb_scale", "mb_blockid", "mb_blockinfo", "mb_inplace"]), "rec": ctx.rec_fns}

    @staticmethod
    def apply(env, ins, a):
        da = _da()
        x = ins[0]
        if a["fn"] == "closure":
            return da.map_blocks(make_scaler(a["k"]), x, dtype=x.dtype)
        f = get_fn(env, a["fn"], a.get("rec"))
        return da.map_blocks(f, x, dtype=x.dtype)


def _bw_double(x):
    return x * 2


def _red_chunk(x, axis=None, keepdims=False):
    return np.sum(x, axis=axis, keepdims=keepdims)


def _red_agg(x, axis=None, keepdims=False):
    return np.sum(x, axis=axis, keepdims=keepdims)


def _gu_mean(x):
    return np.mean(x, axis=-1)


def _bw_centre_on_max(x):
    return x - x.max()  # raises "zero-size array to reduction operation" on an empty block


def _red_chunk_max(x, axis=None, keepdims=False):
    return np.max(x, axis=axis, keepdims=keepdims)


def _red_agg_max(x, axis=None, keepdims=False):
    return np.max(x, axis=axis, keepdims=keepdims)


fakes.FN_TABLE.update(bw_double=_bw_double, red_chunk=_red_chunk, red_agg=_red_agg, gu_mean=_gu_mean,
                      bw_centre_on_max=_bw_centre_on_max, red_chunk_max=_red_chunk_max, red_agg_max=_red_agg_max)


@op("userfn", weight=0.0)
class UserFnOp:
    """blockwise / reduction / apply_gufunc with user functions (recording in C29)."""

    @staticmethod
    def gen(rng, ctx, ins):
        x = ins[0]
        if x.dtype.kind in "bc" or x.ndim == 0 or not known(x):
            return None
        kind = rng.choice(["blockwise", "reduction", "gufunc"])
        a = {"kind": kind, "rec": ctx.rec_fns, "raises_on_empty": rng.random() < 0.4}
        if kind == "reduction":
            a["axis"] = rng.randrange(x.ndim)
        return a

    @staticmethod
    def apply(env, ins, a):
        da = _da()
        x = ins[0]
        rec = a.get("rec")
        roe = a.get("raises_on_empty")
        if a["kind"] == "blockwise":
            ind = tuple(range(x.ndim))
            return da.blockwise(get_fn(env, "bw_centre_on_max" if roe else "bw_double", rec), ind, x, ind, dtype=x.dtype)
        if a["kind"] == "reduction":
            return da.reduction(x, chunk=get_fn(env, "red_chunk_max" if roe else "red_chunk", rec),
                                aggregate=get_fn(env, "red_agg_max" if roe else "red_agg", rec),
                                axis=a["axis"], dtype=x.dtype)
        xr = x.rechunk({x.ndim - 1: -1})
        return da.apply_gufunc(get_fn(env, "gu_mean", rec), "(i)->()", xr, output_dtypes="f8")


@op("pad", weight=0.6)
class PadOp:
    @staticmethod
    def gen(rng, ctx, ins):
        x = ins[0]
        if x.ndim == 0 or not known(x) or 0 in x.shape:
            return None
        return {"width": [[rng.randint(0, 2), rng.randint(0, 2)] for _ in range(x.ndim)],
                "mode": rng.choice(["constant", "edge", "reflect", "wrap"])}

    @staticmethod
    def apply(env, ins, a):
        x = ins[0]
        if a["mode"] == "reflect" and any(s < 2 for s in x.shape):
            raise Invalid("reflect needs >=2")
        return _da().pad(x, [tuple(w) for w in a["width"]], mode=a["mode"])


@op("topk", weight=0.4)
class TopkOp:
    @staticmethod
    def gen(rng, ctx, ins):
        x = ins[0]
        if x.ndim == 0 or not known(x) or 0 in x.shape or x.dtype.kind in "cb":
            return None
        ax = rng.randrange(x.ndim)
        k = rng.randint(1, x.shape[ax])
        return {"k": k * rng.choice([1, -1]), "axis": ax}

    @staticmethod
    def apply(env, ins, a):
        return _da().topk(ins[0], a["k"], axis=a["axis"])


@op("take", weight=0.6)
class TakeOp:
    @staticmethod
    def gen(rng, ctx, ins):
        x = ins[0]
        if x.ndim == 0 or not known(x) or 0 in x.shape:
            return None
        ax = rng.randrange(x.ndim)
        n = x.shape[ax]
        return {"axis": ax, "idx": [rng.randrange(n) for _ in range(rng.randint(1, 6))]}

    @staticmethod
    def apply(env, ins, a):
        return _da().take(ins[0], a["idx"], axis=a["axis"])


@op("setitem_fn", weight=0.8)
class SetitemFnOp:
    """Functional use of setitem: y = x.copy(); y[key] = v  (the in-place semantics are C11's)."""

    @staticmethod
    def gen(rng, ctx, ins):
        x = ins[0]
        if x.ndim == 0 or not known(x) or 0 in x.shape:
            return None
        ix = []
        for n in x.shape[: rng.randint(1, x.ndim)]:
            r = rng.random()
            if r < 0.6:
                ix.append(rand_slice(rng, n, True))
            else:
                ix.append(rng.randint(-n, n - 1))
        return {"index": ix, "value": rng.choice([0, -1, 7])}

    @staticmethod
    def apply(env, ins, a):
        y = ins[0].copy()
        y[from_json_index(a["index"])] = a["value"]
        return y


@op("where_mask", weight=0.6)
class WhereMaskOp:
    @staticmethod
    def gen(rng, ctx, ins):
        x = ins[0]
        if x.dtype.kind in "cb":
            return None
        return {"thr": rng.choice([2, 5, 11]), "other": rng.choice([0, -1])}

    @staticmethod
    def apply(env, ins, a):
        da = _da()
        x = ins[0]
        return da.where(x > a["thr"], x, a["other"])


# ---- binary / n-ary ---------------------------------------------------------------


@op("binary", arity=2, weight=3.5)
class BinaryOp:
    @staticmethod
    def gen(rng, ctx, ins):
        x, y = ins
        try:
            np.broadcast_shapes(_nn(x.shape), _nn(y.shape))
        except ValueError:
            return None
        return {"f": rng.choice(["add", "sub", "mul", "maximum", "where", "lt", "add", "mul", "hypot"])}

    @staticmethod
    def apply(env, ins, a):
        da = _da()
        x, y = ins
        f = a["f"]
        if f == "add":
            return x + y
        if f == "sub":
            return x - y if not (x.dtype.kind == "b" and y.dtype.kind == "b") else x ^ y
        if f == "mul":
            return x * y
        if f == "maximum":
            if x.dtype.kind == "c" or y.dtype.kind == "c":
                raise Invalid("complex")
            return da.maximum(x, y)
        if f == "where":
            if x.dtype.kind == "c":
                raise Invalid("complex")
            return da.where(x > 3, x, y)
        if f == "lt":
            if x.dtype.kind == "c" or y.dtype.kind == "c":
                raise Invalid("complex")
            return x < y
        if f == "hypot":
            if x.dtype.kind == "c" or y.dtype.kind == "c":
                raise Invalid("complex")
            return da.hypot(x.astype("f8"), y.astype("f8"))
        raise Invalid(f)


def _nn(shape):
    return tuple(0 if (isinstance(s, float) and math.isnan(s)) else int(s) for s in shape)


@op("concat", arity=2, weight=1.5)
class ConcatOp:
    @staticmethod
    def gen(rng, ctx, ins):
        x, y = ins
        if x.ndim != y.ndim or x.ndim == 0 or not known(x) or not known(y):
            if x.shape == y.shape and known(x) and known(y):
                return {"kind": "stack", "axis": rng.randint(0, x.ndim)}
            return None
        axes = [ax for ax in range(x.ndim) if all(x.shape[i] == y.shape[i] for i in range(x.ndim) if i != ax)]
        if x.shape == y.shape and rng.random() < 0.4:
            return {"kind": "stack", "axis": rng.randint(0, x.ndim)}
        if not axes:
            return None
        return {"kind": "concat", "axis": rng.choice(axes)}

    @staticmethod
    def apply(env, ins, a):
        da = _da()
        if a["kind"] == "stack":
            return da.stack(list(ins), axis=a["axis"])
        return da.concatenate(list(ins), axis=a["axis"])


@op("tensordot", arity=2, weight=0.8)
class TensordotOp:
    @staticmethod
    def gen(rng, ctx, ins):
        x, y = ins
        if x.ndim == 0 or y.ndim == 0 or not known(x) or not known(y):
            return None
        if x.dtype.kind == "b" and y.dtype.kind == "b":
            return None
        if any(d.kind in "iu" and d.itemsize < 8 for d in (x.dtype, y.dtype)):
            # contractions of narrow integers wrap inside a block and are summed wide across blocks: the
            # value then depends on the chunking of the contracted axis (a pure C01 matter, DESIGN 6.3)
            return None
        pairs = [(i, j) for i in range(x.ndim) for j in range(y.ndim) if x.shape[i] == y.shape[j] and x.shape[i] > 0]
        if not pairs:
            return None
        i, j = rng.choice(pairs)
        if x.ndim + y.ndim - 2 > 3:
            return None
        if rng.random() < 0.3 and x.ndim <= 2 and y.ndim <= 2 and x.shape[-1] == y.shape[0 if y.ndim == 1 else -2]:
            return {"kind": "matmul"}
        return {"kind": "tensordot", "axes": [[i], [j]]}

    @staticmethod
    def apply(env, ins, a):
        da = _da()
        x, y = ins
        if a["kind"] == "matmul":
            return da.matmul(x, y)
        return da.tensordot(x, y, axes=(tuple(a["axes"][0]), tuple(a["axes"][1])))


@op("dask_index", arity=2, weight=0.5)
class DaskIndexOp:
    """x[mask] with a dask boolean mask -> unknown chunks."""

    @staticmethod
    def gen(rng, ctx, ins):
        x, y = ins
        if not ctx.allow_unknown or x.shape != y.shape or x.ndim != 1 or not known(x) or not known(y):
            return None
        return {"thr": rng.choice([1, 3, 6])}

    @staticmethod
    def apply(env, ins, a):
        x, y = ins
        return x[(y % 7) > a["thr"]] if y.dtype.kind != "b" else x[y]


def _bw_add2(a, b):
    return a + b


@op("blockwise2", arity=2, weight=0.0)
class Blockwise2Op:
    """da.blockwise over TWO array operands with identical index labels (a generic, non-Elemwise Blockwise
    node whose operands need chunk unification)."""

    @staticmethod
    def gen(rng, ctx, ins):
        x, y = ins
        if not known(x) or not known(y) or x.shape != y.shape or x.ndim < 1:
            return None
        # map_blocks does not align its operands (align_arrays=False, as upstream): equal chunks only
        return {"how": "map_blocks" if (x.chunks == y.chunks and rng.random() < 0.5) else "blockwise"}

    @staticmethod
    def apply(env, ins, a):
        x, y = ins
        da = _da()
        dt = np.result_type(x.dtype, y.dtype)
        if a["how"] == "map_blocks":
            return da.map_blocks(_bw_add2, x, y, dtype=dt)
        ind = tuple(range(x.ndim))
        return da.blockwise(_bw_add2, ind, x, ind, y, ind, dtype=dt)


@op("raw_operand", arity=1, weight=0.0)
class RawOperandOp:
    """x (op) <array-like source object>: the source enters as a RAW operand, i.e. through asanyarray()
    (from_array(..., asarray=False)), not through an explicit from_array call."""

    @staticmethod
    def gen(rng, ctx, ins):
        (x,) = ins
        if not known(x) or x.ndim < 1 or x.dtype.kind not in "fiu":
            return None
        name = f"s{len(ctx.recipe['sources'])}"
        shp = [int(d) for d in x.shape]
        if rng.random() < 0.3 and len(shp) > 1:
            shp = shp[1:]  # broadcast against the leading axis
        ctx.recipe["sources"][name] = {"shape": shp, "dtype": rng.choice(["f8", "i8"]), "offset": rng.randint(0, 50), "kind": "sim"}
        return {"src": name, "f": rng.choice(["add", "mul", "where"])}

    @staticmethod
    def apply(env, ins, a):
        (x,) = ins
        obj = env.source(a["src"])["obj"]
        if a["f"] == "add":
            return x + obj
        if a["f"] == "mul":
            return x * obj
        return _da().where(x > 3, obj, 0)


@op("int_index", arity=1, weight=0.5)
class IntIndexOp:
    """A 1-d integer dask array holding valid (also negative) positions along one axis of x: an index
    COLLECTION of its own, so that it can have other consumers, be a target, be persisted, be mutated."""

    @staticmethod
    def gen(rng, ctx, ins):
        (x,) = ins
        if not known(x) or x.ndim < 1:
            return None
        axes = [d for d in x.shape if d >= 2]
        if not axes:
            return None
        n = int(rng.choice(axes))
        dt = rng.choice(["i8", "i8", "i8", "i4", "u1"])
        k = rng.randint(1, min(6, 2 * n))
        lo = 0 if dt == "u1" or rng.random() < 0.3 else -n
        vals = [rng.randint(lo, n - 1) for _ in range(k)]
        if lo < 0 and rng.random() < 0.7:
            vals[rng.randrange(k)] = rng.randint(-n, -1)
        if rng.random() < 0.5:
            vals = sorted(set(vals))
        return {"n": n, "values": vals, "dtype": dt, "chunks": rng.randint(1, len(vals))}

    @staticmethod
    def apply(env, ins, a):
        return _da().from_array(np.array(a["values"], dtype=a["dtype"]), chunks=a["chunks"])


@op("take_dask", arity=1, weight=1.0)
class TakeDaskOp:
    """x[..., idx, ...] / da.take(x, idx, axis) with idx a dask integer collection of the program."""

    @staticmethod
    def gen(rng, ctx, ins):
        (x,) = ins
        if not known(x) or x.ndim < 1:
            return None
        cands = [(s_["out"], ax) for s_ in ctx.recipe["steps"] if s_["op"] == "int_index"
                 for ax, d in enumerate(x.shape) if d == s_["args"]["n"] and s_["out"] in ctx.env.vars]
        if not cands:
            return None
        v, ax = rng.choice(cands)
        return {"index_var": v, "axis": ax, "how": rng.choice(["getitem", "take"])}

    @staticmethod
    def extra_inputs(a):
        return [a["index_var"]]

    @staticmethod
    def apply(env, ins, a):
        (x,) = ins
        idx = env.vars[a["index_var"]]
        if a["how"] == "take":
            return _da().take(x, idx, axis=a["axis"])
        return x[(slice(None),) * a["axis"] + (idx,)]


# =========================================================================== generator


class Ctx:
    def __init__(self, rng, **kw):
        self.rng = rng
        self.recipe = {"sources": {}, "generators": {}, "steps": []}
        self.env = Env(self.recipe["sources"])
        self.env.specs_generators = self.recipe["generators"]
        self.dtypes = DTYPES
        self.p_simsource = 0.0
        self.p_untokenizable = 0.0
        self.p_masked = 0.03
        self.p_auto_chunks = 0.15
        self.p_array_param = 0.0
        self.p_random_twin = 0.1
        self.p_random_sibling = 0.15
        self.p_reduction_twin = 0.15
        self.p_fine_chunks = 0.0
        self.p_arg_reduction = 0.0
        self.p_closure_fn = 0.25
        self.p_random_auto = 0.0
        self.p_ragged_creation = 0.1
        self.inexact = set()
        self.p_simlock = 0.0
        self.p_lazy_source = 0.0
        self.p_asarray_false = 0.0
        self.p_custom_getitem = 0.0
        self.unary_fns = None
        self.n_generators = 2
        self.sources_reuse = True
        self.allow_step = True
        self.allow_fancy = True
        self.allow_unknown = True
        self.rec_fns = False
        self.weights = {}
        self.enabled = None
        self.invalid_steps = 0
        self.max_blocks = 64
        self.leaf_damp = 0.15
        self.depth = {}
        for k, v in kw.items():
            setattr(self, k, v)

    def op_weight(self, name):
        if self.enabled is not None and name not in self.enabled:
            return 0.0
        return self.weights.get(name, OPS[name].weight)


def swarm_subset(rng, names, keep_p=0.7, always=()):
    out = [n for n in names if n in always or rng.random() < keep_p]
    return set(out)


def _op_inexact(op_name, a):
    if op_name == "window":
        return a.get("reduce") in ("mean", "std")
    if op_name == "reduction":
        return a.get("f") in ("mean", "var", "std", "nanmean")
    if op_name == "unary":
        return a.get("f") in ("sqrtabs", "sin", "exp_small", "round")
    if op_name == "binary":
        return a.get("f") in ("hypot",)
    return op_name in ("random", "map_overlap", "userfn")


def gen_step(ctx, leaf_only=False, prefer=None):
    """Try to generate + apply one program step. Returns step dict or None."""
    rng = ctx.rng
    names = sorted(OPS)
    varnames = sorted(ctx.env.vars, key=lambda v: int(v[1:]))
    cand = []
    for n in names:
        w = ctx.op_weight(n)
        if w <= 0:
            continue
        o = OPS[n]
        if leaf_only and o.arity != 0:
            continue
        if o.arity > 0 and len(varnames) < 1:
            continue
        if o.arity == 0 and not leaf_only and varnames:
            w *= ctx.leaf_damp
        cand.append((n, w))
    if not cand:
        return None
    total = sum(w for _, w in cand)
    r = rng.random() * total
    acc = 0.0
    name = cand[-1][0]
    for n, w in cand:
        acc += w
        if r <= acc:
            name = n
            break
    o = OPS[name]
    ins_names = []
    if o.arity >= 1:
        # bias toward recent variables and toward `prefer`
        for _ in range(o.arity):
            if prefer and rng.random() < 0.5:
                ins_names.append(rng.choice(prefer))
            elif rng.random() < 0.5:
                ins_names.append(varnames[-1 - min(len(varnames) - 1, int(rng.expovariate(0.7)))])
            else:
                ins_names.append(rng.choice(varnames))
    ins = [ctx.env.vars[v] for v in ins_names]
    with warnings.catch_warnings():
        warnings.simplefilter("ignore")
        try:
            args = o.gen(rng, ctx, ins)
            if args is None:
                ctx.invalid_steps += 1
                return None
            extra = o.extra_inputs(args) if hasattr(o, "extra_inputs") else []
            out = o.apply(ctx.env, ins, args)
            # touch metadata so invalid programs fail here
            _ = out.shape, out.chunks, out.dtype, out.name
            nb = int(np.prod([len(c) for c in out.chunks])) if out.chunks else 1
            ne = int(np.prod(_nn(out.shape))) if out.shape else 1
            if nb > ctx.max_blocks or ne > MAX_ELEMS:
                ctx.invalid_steps += 1
                return None
        except Exception:  # noqa: BLE001  -- generation-time errors are discarded (DESIGN 3.1)
            ctx.invalid_steps += 1
            return None
    v = f"v{ctx.nvars()}"
    ctx.env.vars[v] = out
    # inexact lineage: values that went through a rounding operation may differ in the last bits between
    # two legitimate evaluation orders; index-valued results (argmin/argmax) over them are ill-conditioned
    if any(i in ctx.inexact for i in ins_names + extra) or _op_inexact(name, args):
        ctx.inexact.add(v)
    ctx.depth[v] = 1 + max([ctx.depth.get(i, 0) for i in ins_names + extra] or [0])
    step = {"op": name, "in": ins_names + extra, "args": args, "out": v}
    ctx.recipe["steps"].append(step)
    return step


def pick_target(ctx, rng, deep_p=0.7):
    outs = [s["out"] for s in ctx.recipe["steps"]]
    if rng.random() < deep_p:
        m = max(ctx.depth[o] for o in outs)
        outs = [o for o in outs if ctx.depth[o] >= max(1, m - 1)]
    return rng.choice(outs)


def _ctx_nvars(self):
    return len(self.recipe["steps"])


Ctx.nvars = _ctx_nvars


def gen_program(ctx, n_steps, n_leaves=2, tries=12):
    for _ in range(n_leaves):
        for _ in range(tries):
            if gen_step(ctx, leaf_only=True):
                break
    made = 0
    attempts = 0
    while made < n_steps and attempts < n_steps * tries:
        attempts += 1
        if gen_step(ctx):
            made += 1
    if not ctx.recipe["steps"]:
        raise Invalid("no steps")
    return ctx.recipe


# =========================================================================== interpreter


def new_env(recipe):
    env = Env(recipe["sources"])
    env.specs_generators = recipe.get("generators", {})
    return env


def apply_step(env, step):
    o = OPS[step["op"]]
    n = o.arity
    ins = [env.vars[v] for v in step["in"][:n]] if n else []
    with warnings.catch_warnings():
        warnings.simplefilter("ignore")
        out = o.apply(env, ins, step["args"])
    env.vars[step["out"]] = out
    return out


def build_all(recipe, env=None):
    env = env or new_env(recipe)
    for s in recipe["steps"]:
        apply_step(env, s)
    return env


def needed_steps(recipe, var):
    """Indices of the program steps that define ``var`` (transitively), in order."""
    by_out = {s["out"]: i for i, s in enumerate(recipe["steps"])}
    need = set()
    stack = [var]
    while stack:
        v = stack.pop()
        i = by_out.get(v)
        if i is None or i in need:
            continue
        need.add(i)
        stack.extend(recipe["steps"][i]["in"])
    return sorted(need)


def drop_step(recipe, i):
    """Recipe without step i; dependents are rewired to step i's first input when it has
    one, else dropped transitively.  Returns None if nothing remains."""
    steps = recipe["steps"]
    victim = steps[i]
    repl = victim["in"][0] if victim["in"] else None
    out = []
    dead = {victim["out"]} if repl is None else set()
    for j, s in enumerate(steps):
        if j == i:
            continue
        ins = list(s["in"])
        if any(v in dead for v in ins):
            dead.add(s["out"])
            continue
        if repl is not None:
            ins = [repl if v == victim["out"] else v for v in ins]
        s2 = dict(s)
        s2["in"] = ins
        if s2.get("args", {}).get("array_param", {}).get("var") in dead | {victim["out"]}:
            if repl is None:
                dead.add(s["out"])
                continue
            s2 = dict(s2)
            s2["args"] = dict(s2["args"])
            s2["args"]["array_param"] = dict(s2["args"]["array_param"], var=repl)
        out.append(s2)
    if not out:
        return None
    r = dict(recipe)
    r["steps"] = out
    return r, dead, (victim["out"], repl)
