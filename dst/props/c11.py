"""C11 — in-place operations only change the array they are applied to (histsim)."""

from __future__ import annotations

import math
import warnings

import numpy as np

from .. import gen as G
from .. import histsim as H
from ..common import Invalid, Violation, chunks_json, fp, same_value
from . import c09

ID = "C11"


def _sel_shape(shape, key):
    return np.empty(shape, dtype="i1")[key].shape


def gen_key(rng, shape, xname, kinds):
    kind = rng.choice(kinds)
    nd = len(shape)
    if kind == "basic":
        ix = []
        for n in shape[: rng.randint(1, nd)]:
            r = rng.random()
            if r < 0.05:
                # reversed slice whose start lies before the beginning: selects nothing in NumPy
                ix.append([rng.randint(-2 * n - 1, -n - 1), rng.choice([None, 0, 1]), rng.choice([-1, -2])])
            elif r < 0.6:
                ix.append(G.rand_slice(rng, n, True))
            else:
                ix.append(rng.randint(-n, n - 1))
        if rng.random() < 0.1:
            ix = ["..."] + ix[-1:]
        return ix
    if kind == "list":
        ax = rng.randrange(nd)
        n = shape[ax]
        k = rng.randint(1, min(4, n))
        lst = sorted(rng.sample(range(n), k))
        if rng.random() < 0.3:
            lst = [i - n for i in lst]
        ix = [[None, None, None]] * ax + [{"fancy": lst}]
        return ix
    if kind == "bool1d":
        n = shape[0]
        return [{"bool": [rng.random() < 0.5 for _ in range(n)]}]
    if kind == "npmask":
        size = int(np.prod(shape))
        return {"np_mask": np.array([rng.random() < 0.4 for _ in range(size)]).reshape(shape).tolist()}
    if kind == "daskmask":
        return {"dask_mask": {"var": xname, "thr": rng.choice([1, 3, 7, 12])}}
    raise AssertionError(kind)


def gen_value(rng, selshape, dtype, allow_self):
    r = rng.random()
    if r < 0.45 or not selshape:
        return rng.choice([0, -1, 7, 2.5 if np.dtype(dtype).kind == "f" else 3])
    if r < 0.8:
        # broadcastable array: trailing dims, some squeezed to 1
        k = rng.randint(1, len(selshape))
        shp = [s if rng.random() < 0.7 else 1 for s in selshape[-k:]]
        n = int(np.prod(shp))
        if n == 0 or n > 64:
            return rng.choice([0, 5])
        arr = (np.arange(n).reshape(shp) * 3 + 1).tolist()
        return {"array": arr, "dtype": "f8" if np.dtype(dtype).kind == "f" else "i8"}
    if allow_self:
        return {"self_expr": rng.choice([2, -1])}
    return rng.choice([0, 9])


def assignable(X):
    return (G.known(X) and X.ndim >= 1 and 0 not in X.shape and X.dtype.kind in "fiu" and all(int(d) <= 64 for d in X.shape))


def gen_inplace_event(rng, recipe, x, X, prop=ID):
    """One in-place step on pool variable ``x`` (setitem with a scalar value, or ufunc out=) that dask_array
    accepts on a copy of X; None if none was found.  Shared by the checks that put an in-place step into
    their histories (C05 tail, C21 resubmission)."""
    shape = tuple(int(d) for d in X.shape)
    if rng.random() < 0.8:
        for _ in range(8):
            key = gen_key(rng, shape, x, ["basic", "basic", "list", "npmask", "daskmask"])
            value = rng.choice([0, 7, 3] if X.dtype.kind == "u" else [0, -1, 7, 3])
            try:
                with warnings.catch_warnings():
                    warnings.simplefilter("ignore")
                    y_ = X.copy()
                    m_ = H.Machine({"recipe": recipe}, {}, [], prop)
                    m_.pool = {x: y_}
                    y_[m_.resolve_key(key)] = value  # the very assignment the history will make
                    _ = y_.chunks
                return {"ev": "setitem", "var": x, "key": key, "value": value}
            except Exception:  # noqa: BLE001
                continue
        return None
    uf = rng.choice(["add", "multiply", "negative", "subtract"])
    return {"ev": "ufunc_out", "var": x, "ufunc": uf, "args": [x] if uf == "negative" else [x, rng.choice([1, 2, 3])]}


def gen(rng, tier):
    ctx = G.Ctx(rng)
    names = sorted(G.OPS)
    ctx.enabled = G.swarm_subset(rng, names, 0.7, always=("from_array", "getitem", "binary", "unary", "rechunk"))
    ctx.weights = {"random": 0.0, "getitem": 5.0, "binary": 4.0, "unary": 3.0, "reduction": 2.5, "rechunk": 3.0,
                   "dask_index": 3.0, "setitem_fn": 0.5}
    ctx.dtypes = ["f8", "f8", "i8", "i4", "f4"]
    ctx.p_masked = 0.0
    ctx.allow_unknown = True
    # Non-elementwise user block functions are kept out of C11 programs: fancy/boolean indexing is
    # pushed through map_blocks/map_overlap(depth=0) user functions (map_blocks(f, x)[[0, 1, 3]] !=
    # map_blocks(f, x).compute()[[0, 1, 3]]), a pure C01/C02 matter that would otherwise make the value
    # of ``x[key] = g(x[key])`` ambiguous and be misreported here (recorded in DESIGN as unclaimed).
    for bad in ("map_overlap", "map_blocks", "userfn"):
        ctx.enabled.discard(bad)
    recipe = G.gen_program(ctx, rng.randint(3, 9), n_leaves=rng.randint(1, 2))
    steps = recipe["steps"]
    env = ctx.env
    mode = "assign"
    cands = [s["out"] for s in steps if not G.known(env.vars[s["out"]])]
    if cands and rng.random() < 0.6:
        mode = "chunksizes"
    if mode == "assign":
        cands = [s["out"] for s in steps if G.known(env.vars[s["out"]]) and env.vars[s["out"]].ndim >= 1
                 and 0 not in env.vars[s["out"]].shape and env.vars[s["out"]].dtype.kind in "fiu"]
        if not cands:
            raise Invalid("no assignable variable")
    x = rng.choice(cands)
    X = env.vars[x]
    consumers = [s["out"] for s in steps if x in s["in"]][:4]
    others = [s["out"] for s in steps if s["out"] != x and s["out"] not in consumers]
    rng.shuffle(others)
    others = others[: rng.randint(0, 2)]
    hist = [{"ev": "build", "var": x}]
    derived = []
    k = 0
    for c in consumers + others:
        if rng.random() < 0.85:
            hist.append({"ev": "build", "var": c})
            derived.append(c)
    for how in ("copy", "copy.copy", "pickle", "persist"):
        if rng.random() < 0.4:
            k += 1
            o = f"c{k}"
            if how == "pickle":
                hist.append({"ev": "pickle", "var": x, "out": o})
            elif how == "persist":
                hist.append(dict({"ev": "persist", "var": x, "out": o, "entry": "method"}, **H.rand_sched(rng)))
            else:
                hist.append({"ev": "copy", "var": x, "out": o, "how": how})
            derived.append(o)
    # warm caches before the mutation with some probability
    for v in [x] + derived:
        if rng.random() < 0.5:
            hist.append(dict({"ev": "compute", "var": v}, **H.rand_sched(rng)))
    nmut = rng.randint(1, 4 if tier == "thorough" else 3)
    key_kinds = ["basic", "basic", "basic", "list", "bool1d", "npmask", "daskmask"]
    # "aux" scenario: the assignment goes through a live dask collection of its own (an integer index,
    # a boolean mask or the assigned value), and THAT collection is modified in place afterwards: x, now
    # an "other collection", has to keep the value the assignment gave it
    aux_at = rng.randrange(nmut) if (mode == "assign" and X.shape[0] >= 3 and rng.random() < 0.4) else None
    for mi in range(nmut):
        if mi == aux_at:
            k += 1
            a = f"k{k}"
            n0 = int(X.shape[0])
            akind = rng.choice(["int", "int", "mask", "value"])
            scalar = rng.choice([0, -1, 7, 3])
            if akind == "int":
                cnt = rng.randint(1, min(3, n0 - 1))
                lst = sorted(rng.sample(range(n0), cnt))
                spare = rng.choice([j for j in range(n0) if j not in lst])
                hist.append({"ev": "mkaux", "out": a, "kind": akind, "data": lst, "dtype": "i8", "chunks": rng.choice([1, 2, cnt])})
                hist.append({"ev": "setitem", "var": x, "key": [{"aux": a}], "value": scalar})
                mut = {"ev": "setitem", "var": a, "key": [rng.randrange(cnt)], "value": spare}
            elif akind == "mask":
                size = int(np.prod(X.shape))
                data = np.array([rng.random() < 0.4 for _ in range(size)]).reshape(X.shape)
                hist.append({"ev": "mkaux", "out": a, "kind": akind, "data": data.tolist(), "dtype": "bool",
                             "chunks": rng.choice([1, 2, 3, n0])})
                hist.append({"ev": "setitem", "var": x, "key": {"aux_mask": a}, "value": scalar})
                mut = {"ev": "setitem", "var": a, "key": [0], "value": bool(not data[0].all())}
            else:
                lo = rng.randint(0, n0 - 2)
                hi = rng.randint(lo + 1, n0)
                shp = [hi - lo] + [int(d) for d in X.shape[1:]]
                data = (np.arange(int(np.prod(shp))).reshape(shp) * 5 + 100).tolist()
                hist.append({"ev": "mkaux", "out": a, "kind": akind, "data": data,
                             "dtype": "f8" if X.dtype.kind == "f" else "i8", "chunks": rng.choice([1, 2, hi - lo])})
                hist.append({"ev": "setitem", "var": x, "key": [[lo, hi, None]], "value": {"aux": a}})
                mut = {"ev": "setitem", "var": a, "key": [0], "value": -50}
            if rng.random() < 0.6:
                hist.append(dict({"ev": "compute", "var": x}, **H.rand_sched(rng)))
            if rng.random() < 0.3:
                hist.append(dict({"ev": "compute", "var": a}, **H.rand_sched(rng)))
            hist.append(mut)
            if rng.random() < 0.3:
                hist.append(rng.choice([{"ev": "gc"}, {"ev": "evict", "what": "lower"}, {"ev": "evict", "what": "singleton"}]))
            hist.append(dict({"ev": "compute", "var": rng.choice([x, a])}, **H.rand_sched(rng)))
            hist.append({"ev": "check_others"})
            continue
        if mode == "chunksizes":
            hist.append(dict({"ev": "compute_chunk_sizes", "var": x}, **H.rand_sched(rng)))
            mode = "done"
        elif mode == "assign":
            r = rng.random()
            if r < 0.75:
                ev = None
                for _ in range(8):
                    key = gen_key(rng, X.shape, x, key_kinds)
                    try:
                        if isinstance(key, dict) and "dask_mask" in key:
                            sel = ()
                        elif isinstance(key, dict):
                            sel = _sel_shape(X.shape, np.array(key["np_mask"], dtype=bool))
                        else:
                            sel = _sel_shape(X.shape, G.from_json_index(key))
                    except Exception:  # noqa: BLE001
                        continue
                    val = gen_value(rng, sel, X.dtype, allow_self=not isinstance(key, dict))
                    ev = {"ev": "setitem", "var": x, "key": key, "value": val}
                    # validity probe on a copy (both dask and numpy must accept it)
                    try:
                        with warnings.catch_warnings():
                            warnings.simplefilter("ignore")
                            y = X.copy()
                            m = H.Machine({"recipe": recipe}, {}, [], ID)
                            m.pool = {x: y}
                            kk = m.resolve_key(key)
                            vv = m.resolve_value(val, y, kk)
                            y[kk] = vv
                            _ = y.chunks
                            if not (isinstance(key, dict) and "dask_mask" in key):
                                z = np.zeros(X.shape, dtype=X.dtype)
                                vnp = np.array(val["array"], dtype=val["dtype"]) if isinstance(val, dict) and "array" in val else (
                                    0 if isinstance(val, dict) else val)
                                z[kk] = vnp
                        break
                    except Exception:  # noqa: BLE001
                        ev = None
                if ev is None:
                    continue
                hist.append(ev)
            else:
                uf = rng.choice(["add", "multiply", "negative", "maximum", "subtract"])
                if uf == "negative":
                    args = [x]
                else:
                    args = [x, rng.choice([1, 2, 3])] if rng.random() < 0.7 else [rng.choice([1, 2]), x]
                uev = {"ev": "ufunc_out", "var": x, "ufunc": uf, "args": args}
                if rng.random() < 0.5:
                    # the ufunc's INPUT is another collection (a snapshot copy of x taken now), x is only the
                    # destination: np.add(a, 1, out=x[, where=m])
                    k += 1
                    hist.append({"ev": "copy", "var": x, "out": f"c{k}", "how": "copy"})
                    uev["args"] = [f"c{k}" if a_ == x else a_ for a_ in args]
                if rng.random() < 0.4:
                    # masked ufunc: where the mask is False the OLD contents of x are an input of the result
                    size = int(np.prod(X.shape))
                    uev["where"] = np.array([rng.random() < 0.5 for _ in range(size)]).reshape(X.shape).tolist()
                hist.append(uev)
                if "where" in uev and rng.random() < 0.6:
                    # ... then x changes, and the SAME masked ufunc (same inputs, same mask) is applied again
                    hist.append(dict({"ev": "compute", "var": x}, **H.rand_sched(rng)))
                    n0 = int(X.shape[0])
                    hist.append({"ev": "setitem", "var": x, "key": [rng.randrange(n0)], "value": rng.choice([100, -50])})
                    hist.append(dict(uev))
        # after a mutation: faults, new derivations from the mutated x, computes
        if rng.random() < 0.3:
            hist.append(rng.choice([{"ev": "gc"}, {"ev": "evict", "what": "lower"}, {"ev": "evict", "what": "singleton"}]))
        if rng.random() < 0.3:
            k += 1
            hist.append({"ev": "pickle", "var": x, "out": f"c{k}"})
        for c in consumers[:2]:
            if rng.random() < 0.4:
                k += 1
                hist.append({"ev": "derive", "as": c, "subst": {}, "out": f"n{k}", "from_mutated": True})
        hist.append(dict({"ev": "compute", "var": x}, **H.rand_sched(rng)))
        if rng.random() < 0.5:
            hist.append({"ev": "check_others"})
    hist.append({"ev": "check_others"})
    return {"scribble": rng.random() < 0.5, "recipe": recipe, "x": x, "targets": [x] + consumers + others, "history": hist}


def shape_of(case, stats):
    def kk(e):
        k = e.get("key")
        if isinstance(k, dict):
            return sorted(k)[0]
        return "basic" if k is not None else None

    return [[s["op"] for s in case["recipe"]["steps"]], [(e["ev"], kk(e), e.get("ufunc")) for e in case["history"]]]


def nontrivial(case, stats):
    return stats.get("mutations", 0) >= 1 and stats.get("others_checked", 0) >= 1


def execute(case, stats, log):
    import dask_array as da

    m = H.Machine(case, stats, log, ID)
    x = case["x"]
    earlier = {}   # pool var -> the value it has to compute to NOW (its first recorded value, or, for an
    #                in-place target, the NumPy result of its latest in-place operation)
    expected = {}  # in-place targets only: var -> NumPy result of its latest in-place operation
    last_target = [None]
    src_fp = {}
    aux_src = {}

    def comp(v, ev=None):
        return m.compute(m.pool[v], ev or {"policy": "fifo"})

    def aliases(t):
        return [v for v in m.pool if m.pool[v] is m.pool[t]]

    def record_all(t):
        al = set(aliases(t))
        for v in sorted(m.pool):
            if v in al or v in earlier:
                continue  # x[:] / +x / swapaxes(i, i) return the very same object: an alias of the target
            try:
                earlier[v] = comp(v)
            except Exception:  # noqa: BLE001
                earlier[v] = None

    def mismatch(v, now, i, why):
        r = same_value(now, earlier[v], exact=True)
        if not r:
            return
        if v in expected and v in aliases(last_target[0]):
            raise Violation(ID, "inplace-result-wrong",
                            f"event {i} ({why}): {v} after the in-place operation differs from the NumPy result of the same "
                            f"operation applied to its previous value: {r}", step=i)
        raise Violation(ID, "other-collection-changed",
                        f"event {i} ({why}): {v} no longer computes its earlier value after the in-place "
                        f"operation on {last_target[0]}: {r}", step=i)

    def check_others(i, why):
        for v in sorted(m.pool):
            if earlier.get(v) is None:
                continue
            try:
                now = comp(v)
            except Exception as e:  # noqa: BLE001
                cls = "inplace-result-raises" if v in aliases(last_target[0]) else "other-collection-broken"
                raise Violation(ID, cls,
                                f"event {i} ({why}): {v} computed before the in-place operation on {last_target[0]} but now "
                                f"raises {type(e).__name__}: {str(e)[:200]}", step=i)
            stats["others_checked"] = stats.get("others_checked", 0) + (0 if v in aliases(last_target[0]) else 1)
            mismatch(v, now, i, why)
        for n, s in sorted(m.env.sources.items()):
            if fp(s["user"]) != src_fp.setdefault(n, fp(s["orig"])):
                raise Violation(ID, "source-mutated", f"event {i}: source array {n} was modified", step=i)
            if hasattr(s["obj"], "unchanged") and not s["obj"].unchanged():
                raise Violation(ID, "source-mutated", f"event {i}: SimSource {n} backing was modified", step=i)
        for n, (arr, f0) in sorted(aux_src.items()):
            if fp(arr) != f0:
                raise Violation(ID, "source-mutated", f"event {i}: the NumPy array behind {n} was modified", step=i)

    for i, ev in enumerate(case["history"]):
        kind = ev["ev"]
        var = ev.get("var")
        if kind == "check_others":
            if last_target[0] is not None and last_target[0] in m.pool:
                check_others(i, "check")
            continue
        if kind == "mkaux":
            # an index / mask / value collection of its own, used BY REFERENCE in a later assignment
            arr = np.array(ev["data"], dtype=ev["dtype"])
            aux_src[ev["out"]] = (arr, fp(arr))
            m.pool[ev["out"]] = da.from_array(arr, chunks=ev["chunks"])
            log.append([i, "mkaux", ev["out"], ev["kind"]])
            continue
        if kind == "derive":
            if ev["as"] not in m.by_out:
                continue
            try:
                for v in m.by_out[ev["as"]]["in"]:
                    if v not in m.pool:
                        m.build(v)
                out = m.apply(ev)
                # a collection derived from the *mutated* x must see the new value: recorded as its
                # own earlier value from now on
                earlier[ev["out"]] = comp(ev["out"])
            except Violation:
                raise
            except Exception:  # noqa: BLE001
                m.pool.pop(ev["out"], None)
            continue
        if var is not None and kind != "build" and var not in m.pool:
            continue
        if kind in ("setitem", "ufunc_out", "compute_chunk_sizes"):
            t = var
            X = m.pool[t]
            try:
                pre = comp(t)
            except Exception as e:  # noqa: BLE001
                raise Invalid(f"{t} does not compute before mutation: {e}")
            record_all(t)
            pre_meta = (X.shape, X.dtype, X.name)
            # NumPy model of the operation on dask's own pre-values
            try:
                if kind == "setitem":
                    key = m.resolve_key(ev["key"])
                    val = m.resolve_value(ev["value"], X, key)
                    key_np = key
                    if hasattr(key, "compute"):
                        key_np = m.compute(key, {"policy": "fifo"})
                    elif isinstance(key, tuple):
                        key_np = tuple(np.asarray(k) if isinstance(k, list) else
                                       (m.compute(k, {"policy": "fifo"}) if hasattr(k, "compute") else k) for k in key)
                    val_np = m.compute(val, {"policy": "fifo"}) if hasattr(val, "compute") else val
                    exp = np.array(pre, copy=True)
                    with warnings.catch_warnings():
                        warnings.simplefilter("ignore")
                        exp[key_np] = val_np
                elif kind == "ufunc_out":
                    f = getattr(np, ev["ufunc"])
                    ins = [pre if a == t else (comp(a) if isinstance(a, str) else a) for a in ev["args"]]
                    exp = np.array(pre, copy=True)
                    if ev.get("where") is not None:
                        f(*ins, out=exp, where=np.array(ev["where"], dtype=bool))
                    else:
                        f(*ins, out=exp)
                else:
                    exp = pre
            except Exception as e:  # noqa: BLE001
                raise Invalid(f"numpy model rejected the operation: {e}")
            try:
                out = m.apply(ev)
            except Violation:
                raise
            except Exception as e:  # noqa: BLE001
                raise Invalid(f"in-place op rejected by dask_array: {type(e).__name__}: {str(e)[:200]}")
            stats["mutations"] = stats.get("mutations", 0) + 1
            stats[f"probe.{kind}"] = stats.get(f"probe.{kind}", 0) + 1
            if t != x:
                stats["probe.mutated_operand_of_earlier_assignment"] = stats.get("probe.mutated_operand_of_earlier_assignment", 0) + 1
            if isinstance(ev.get("key"), (dict, list)) and "aux" in str(ev.get("key")) or "aux" in str(ev.get("value")):
                stats["probe.assignment_through_live_collection"] = stats.get("probe.assignment_through_live_collection", 0) + 1
            last_target[0] = t
            for a_ in aliases(t):
                expected[a_] = exp
                earlier[a_] = exp
            X = m.pool[t]
            if kind == "compute_chunk_sizes":
                if any(math.isnan(c) for dim in X.chunks for c in dim):
                    raise Violation(ID, "chunk-sizes-unresolved", f"event {i}: chunks still unknown after compute_chunk_sizes: {X.chunks}", step=i)
                # true block shapes, observed by the scheduler
                sim = m.sim({"policy": "fifo"}, keep_all=True)
                with warnings.catch_warnings():
                    warnings.simplefilter("ignore")
                    X.compute(scheduler=sim)
                for kkey in H._flat(X.__dask_keys__()):
                    blk = sim.values[kkey]
                    adv = tuple(X.chunks[d][j] for d, j in enumerate(kkey[1:]))
                    if tuple(np.shape(blk)) != adv:
                        raise Violation(ID, "chunk-sizes-wrong",
                                        f"event {i}: after compute_chunk_sizes block {kkey[1:]} has shape {np.shape(blk)} "
                                        f"but chunks advertise {adv}", step=i)
            else:
                try:
                    _ = X.shape, X.dtype
                except Exception as e:  # noqa: BLE001
                    raise Violation(ID, "inplace-changed-metadata",
                                    f"event {i}: after {kind} the shape/dtype of {t} cannot be read any more: "
                                    f"{type(e).__name__}: {str(e)[:200]}", step=i)
                if tuple(X.shape) != tuple(pre_meta[0]) or X.dtype != pre_meta[1]:
                    raise Violation(ID, "inplace-changed-metadata",
                                    f"event {i}: {kind} changed shape/dtype {pre_meta[0]}/{pre_meta[1]} -> {X.shape}/{X.dtype}", step=i)
            log.append([i, kind, t, m.nm(X.name)])
            continue
        try:
            out = m.apply(ev)
        except Violation:
            raise
        except Exception as e:  # noqa: BLE001
            if kind == "build":
                raise Invalid(f"build raised {type(e).__name__}: {str(e)[:200]}")
            if kind in ("compute", "compute_via") and last_target[0] is not None and earlier.get(var) is not None:
                cls = "inplace-result-raises" if var in aliases(last_target[0]) else "other-collection-broken"
                raise Violation(ID, cls,
                                f"event {i}: {kind}({var}{', ' + ev['entry'] if ev.get('entry') else ''}) after the in-place "
                                f"operation on {last_target[0]} raised {type(e).__name__}: {str(e)[:300]}", step=i)
            log.append([i, kind, var, "raised-ignored"])
            continue
        if kind == "compute":
            val = out["value"]
            log.append([i, "compute", var, fp(val)])
            if last_target[0] is not None and earlier.get(var) is not None:
                if var in expected:
                    stats["x_checked"] = stats.get("x_checked", 0) + 1
                else:
                    stats["others_checked"] = stats.get("others_checked", 0) + 1
                mismatch(var, val, i, "compute")
        elif kind in ("pickle", "copy", "persist") and var in expected:
            # copies taken after the mutation must carry the mutated value
            try:
                earlier[ev["out"]] = comp(ev["out"])
            except Exception as e:  # noqa: BLE001
                raise Violation(ID, "inplace-result-raises", f"event {i}: {kind} copy of mutated {var} raises {type(e).__name__}: {e}", step=i)
            r = same_value(earlier[ev["out"]], expected[var], exact=True)
            if r:
                raise Violation(ID, "inplace-result-wrong",
                                f"event {i}: {kind} copy of {var} taken after the in-place operation differs from {var}'s value: {r}", step=i)
        else:
            log.append([i, kind, var])


def candidates(case):
    hist = case["history"]
    for h in H.delete_each(hist):
        if any(e["ev"] == "build" and e.get("var") == case["x"] for e in h):
            c = dict(case)
            c["history"] = h
            yield c
    rec = case["recipe"]
    for i in reversed(range(len(rec["steps"]))):
        r = G.drop_step(rec, i)
        if r is None:
            continue
        new, dead, (victim, repl) = r
        if case["x"] == victim or case["x"] in dead:
            continue
        ren = {victim: repl}
        h2 = []
        for e in hist:
            e = dict(e)
            v = e.get("var")
            if v is not None:
                v2 = ren.get(v, v)
                if v2 is None or v2 in dead:
                    continue
                e["var"] = v2
            if e["ev"] == "derive" and (e["as"] == victim or e["as"] in dead):
                continue
            if isinstance(e.get("key"), dict) and "dask_mask" in e["key"]:
                mv = e["key"]["dask_mask"]["var"]
                if mv == victim or mv in dead:
                    continue
            h2.append(e)
        c = dict(case)
        c.update(recipe=new, history=h2, targets=[t for t in case["targets"] if t != victim and t not in dead])
        yield c
    for i, e in enumerate(hist):
        if e.get("policy") not in (None, "fifo") or e.get("release"):
            c = dict(case)
            c["history"] = list(hist)
            c["history"][i] = dict(e, policy="fifo", release=False)
            yield c
