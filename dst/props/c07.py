"""C07 — names are deterministic and survive serialization (histsim + restart in a
fresh interpreter under another PYTHONHASHSEED)."""

from __future__ import annotations

import base64
import json
import os
import pickle

import cloudpickle
import subprocess
import sys
import warnings

import numpy as np

from .. import gen as G
from .. import histsim as H
from ..common import HarnessError, Invalid, Violation, chunks_json, derive, digest, fp, same_value, reset_sut
from . import c09

ID = "C07"

FIELDS = ("name", "keys", "chunks", "dtype", "frisky_keys", "graph_keys")
# the statement's pickle clause: "keeps its name, keys, chunks, dtype and Frisky output keys, and
# computes the same values" -- the optimized graph's internal keys are promised for rebuilds only
PICKLE_FIELDS = ("name", "keys", "chunks", "dtype", "frisky_keys", "value")


def describe(x, sim=None, with_value=True):
    """Everything the statement says must survive: name, keys, chunks, dtype, Frisky output
    keys, the sorted key set of the optimized graph, and the value."""
    d = {"name": x.name, "keys": digest([str(k) for k in H._flat(x.__dask_keys__())]), "chunks": chunks_json(x.chunks),
         "dtype": str(x.dtype)}
    try:
        d["frisky_keys"] = digest(list(x.__frisky_output_keys__()))
    except NotImplementedError:
        d["frisky_keys"] = "declined"
    try:
        g = x.__dask_graph__()
        d["graph_keys"] = digest(sorted(str(k) for k in g))
        d["ntasks"] = len(g)
    except Exception as e:  # noqa: BLE001
        d["graph_keys"] = f"raised {type(e).__name__}"
    if with_value:
        from ..schedsim import Sim
        import random

        try:
            with warnings.catch_warnings():
                warnings.simplefilter("ignore")
                v = x.compute(scheduler=Sim(random.Random(0), policy="fifo", prop=ID, stats={}))
            d["value"] = fp(v)
        except Exception as e:  # noqa: BLE001
            d["value"] = f"raised {type(e).__name__}"
    return d


def diff_desc(a, b, fields=FIELDS + ("value",), other_config=False):
    for f in fields:
        if f == "value" and (str(a.get(f)).startswith("raised") or str(b.get(f)).startswith("raised")):
            # a program that does not compute at all (on either side) is C01's matter, not a naming one
            continue
        if f == "value" and other_config and np.dtype(a.get("dtype", "f8")).kind in "fc":
            # values travel as bit fingerprints; under ANOTHER planner configuration (tree fan-in, fusion,
            # chunk plan) an inexact result may legitimately differ in the last bits (C09 compares those
            # with a tolerance); exact dtypes are still compared
            continue
        if a.get(f) != b.get(f):
            return f, a.get(f), b.get(f)
    return None


# --------------------------------------------------------------------------- verifier child


class Verifier:
    """A fresh interpreter under another PYTHONHASHSEED; re-spawned every N requests so that
    most requests are served by a genuinely young process."""

    inst = None

    def __init__(self, hashseed):
        env = dict(os.environ)
        env["PYTHONHASHSEED"] = str(hashseed)
        env["PYTHONDONTWRITEBYTECODE"] = "1"
        self.p = subprocess.Popen(
            [sys.executable, "-u", os.path.join(os.path.dirname(os.path.dirname(os.path.abspath(__file__))), "worker.py")],
            stdin=subprocess.PIPE, stdout=subprocess.PIPE, stderr=subprocess.DEVNULL, text=True, bufsize=1, env=env,
            cwd=os.path.dirname(os.path.dirname(os.path.dirname(os.path.abspath(__file__)))),
        )
        line = self.p.stdout.readline()
        if not line or not json.loads(line).get("ready"):
            raise HarnessError("verifier did not start")
        self.served = 0
        self.hashseed = hashseed

    def ask(self, job):
        self.p.stdin.write(json.dumps(job) + "\n")
        self.p.stdin.flush()
        line = self.p.stdout.readline()
        if not line:
            raise HarnessError("verifier died")
        self.served += 1
        return json.loads(line)

    def close(self):
        try:
            self.p.stdin.write('{"cmd": "exit"}\n')
            self.p.stdin.flush()
            self.p.wait(timeout=5)
        except Exception:  # noqa: BLE001
            self.p.kill()

    @classmethod
    def get(cls, seed):
        v = cls.inst
        if v is not None and (v.served >= 40 or v.p.poll() is not None):
            v.close()
            v = None
        if v is None:
            # a pure function of this interpreter's own PYTHONHASHSEED (recorded in every case),
            # so a replay under the recorded value talks to a verifier with the same hash seed
            mine = os.environ.get("PYTHONHASHSEED", "0") or "0"
            hs = (derive(mine, "verifier") % 4294967290) + 1
            if str(hs) == mine:
                hs += 1
            v = cls.inst = Verifier(hs)
        return v


def verify_items(job):
    """Runs inside the verifier interpreter (worker.py cmd 'verify')."""
    out = []
    recipe = job["recipe"]
    for it in job["items"]:
        res = {}
        if it.get("rebuild"):
            reset_sut(0)
            try:
                m = H.Machine({"recipe": recipe}, {}, [], ID)
                # "the same program": the same construction statements in the same order
                for b in job.get("builds", []):
                    m.build(b["var"], force=b.get("force", False))
                x = m.pool[it["var"]] if it["var"] in m.pool else m.build(it["var"])
                res["rebuilt"] = describe(x)
            except Exception as e:  # noqa: BLE001
                res["rebuilt"] = {"error": f"{type(e).__name__}: {str(e)[:200]}"}
        if it.get("blob"):
            reset_sut(0)
            try:
                import dask

                # the receiver's own configuration (a worker need not share the client's): in effect
                # while the copy is unpickled and first read
                with dask.config.set(it.get("recv_config") or {}):
                    x = pickle.loads(base64.b64decode(it["blob"]))
                    res["unpickled"] = describe(x)
            except Exception as e:  # noqa: BLE001
                res["unpickled"] = {"error": f"{type(e).__name__}: {str(e)[:200]}"}
        out.append(res)
    return {"items": out, "hashseed": os.environ.get("PYTHONHASHSEED")}


# --------------------------------------------------------------------------- generation


RECV_KEYS = ["array.chunk-size", "array.chunk-size", "array.unify-chunks-policy", "array.unify-chunks-limit",
             "array.rechunk.threshold", "array.optimize-graph", "split_every"]


RECV_CHUNK_SIZES = ["8B", "16B", "32B", "64B", "256B", "4KiB"]  # generated sources are 1 B .. 4 KiB
_bias = [None]  # generation-time only: the key the current recipe is most sensitive to


def _recv_config(rng):
    """Configuration of the RECEIVING side of a pickle (1-2 keys of the planner domain)."""
    out = {}
    for _ in range(rng.choice([1, 1, 2])):
        k = _bias[0] if (_bias[0] and rng.random() < 0.6) else rng.choice(RECV_KEYS)
        out[k] = rng.choice(RECV_CHUNK_SIZES if k == "array.chunk-size" else H.CONFIG_DOMAIN[k])
    return out


def gen(rng, tier):
    _bias[0] = None
    ctx = G.Ctx(rng)
    names = sorted(G.OPS)
    ctx.enabled = G.swarm_subset(rng, names, 0.75, always=("from_array", "binary", "rechunk", "getitem"))
    ctx.weights = {"random": 1.5, "map_blocks": 1.5, "userfn": 1.0}
    ctx.p_auto_chunks = rng.choice([0.05, 0.2, 0.5])
    ctx.p_simsource = rng.choice([0.0, 0.3, 0.6])
    ctx.p_untokenizable = rng.choice([0.0, 0.0, 0.3])
    ctx.p_array_param = 0.3
    ctx.rec_fns = rng.random() < 0.3
    recipe, targets = c09.gen_programs(rng, ctx, tier, 3, 10)
    leaves = [s_["out"] for s_ in recipe["steps"] if s_["op"] == "from_array" and s_["out"] not in targets]
    auto = [s_["out"] for s_ in recipe["steps"] if s_["op"] in ("from_array", "creation") and s_["out"] not in targets
            and isinstance(s_["args"].get("chunks"), str)]
    p_lazy = rng.choice([0.0, 0.3, 0.6])
    if auto and rng.random() < 0.7:
        # config-resolved chunk specs ("auto", "1KiB"): the resolved grid must travel with the name
        targets.insert(0, rng.choice(auto))
        p_lazy = max(p_lazy, 0.5)
        _bias[0] = "array.chunk-size"
    elif leaves and rng.random() < 0.4:
        targets.append(rng.choice(leaves))  # a bare source collection: nothing has read its block structure yet
    else:
        _bias[0] = None
    hist = []
    built, extra = [], []
    k = [0]
    n = rng.randint(5, 16 if tier == "quick" else 24)
    slots = []
    while len(hist) < n:
        unbuilt = [t for t in targets if t not in built]
        live = built + extra
        r = rng.random()
        if unbuilt and (not live or r < 0.2):
            t = rng.choice(unbuilt)
            built.append(t)
            if rng.random() < p_lazy:
                # "lazy" build: the harness does not look at the new collection (no name, chunks, keys,
                # graph read), so whatever is still unresolved stays unresolved when it is serialised
                hist.append({"ev": "build", "var": t, "lazy": True})
                r2 = rng.random()
                if r2 < 0.4:
                    hist.append({"ev": "restart", "vars": [t], "recv_config": _recv_config(rng) if rng.random() < 0.7 else None})
                elif r2 < 0.7:
                    k[0] += 1
                    sl = f"b{k[0]}"
                    hist.append({"ev": "dump", "var": t, "slot": sl, "lazy": True})
                    slots.append(sl)
            else:
                hist.append({"ev": "build", "var": t})
        elif not live:
            continue
        elif r < 0.3:
            hist.append({"ev": "inspect", "var": rng.choice(live), "acc": rng.sample(H.ACCESSORS, rng.randint(1, 4))})
        elif r < 0.38:
            k[0] += 1
            o = f"o{k[0]}"
            hist.append({"ev": "optimize", "var": rng.choice(live), "out": o})
        elif r < 0.48:
            hist.append(dict({"ev": "compute", "var": rng.choice(live)}, **H.rand_sched(rng)))
        elif r < 0.53:
            hist.append({"ev": "graph", "var": rng.choice(live)})
        elif r < 0.6:
            k[0] += 1
            o = f"p{k[0]}"
            hist.append(dict({"ev": "persist", "var": rng.choice(live), "out": o, "entry": rng.choice(["method", "dask"])}, **H.rand_sched(rng)))
            extra.append(o)
        elif r < 0.72:
            k[0] += 1
            o = f"u{k[0]}"
            hist.append({"ev": "pickle", "var": rng.choice(live), "out": o})
            extra.append(o)
        elif r < 0.8:
            k[0] += 1
            sl = f"b{k[0]}"
            hist.append({"ev": "dump", "var": rng.choice(live), "slot": sl})
            slots.append(sl)
        elif r < 0.86 and slots:
            k[0] += 1
            o = f"l{k[0]}"
            e_ = {"ev": "load", "slot": rng.choice(slots), "out": o}
            if rng.random() < 0.5:
                e_["config"] = _recv_config(rng)
            hist.append(e_)
            extra.append(o)
        elif r < 0.9 and built:
            v = rng.choice(built)
            built.remove(v)
            hist.append({"ev": "drop", "var": v})
            hist.append({"ev": "gc"})
        elif r < 0.93:
            hist.append({"ev": "evict", "what": rng.choice(["lower", "singleton"])})
        elif r < 0.96 and built:
            hist.append({"ev": "build", "var": rng.choice(built), "force": True})
        else:
            hist.append({"ev": "restart", "vars": rng.sample(live, min(len(live), rng.randint(1, 3))),
                         "recv_config": _recv_config(rng) if rng.random() < 0.5 else None})
    live = built + extra
    if live:
        hist.append({"ev": "restart", "vars": live[:4], "recv_config": _recv_config(rng) if rng.random() < 0.5 else None})
    return {"recipe": recipe, "targets": targets, "history": hist}


def shape_of(case, stats):
    return [[s["op"] for s in case["recipe"]["steps"]], [e["ev"] for e in case["history"]]]


def nontrivial(case, stats):
    return stats.get("cross_process_checks", 0) >= 1 and stats.get("pickle_checks", 0) + stats.get("rebuild_checks", 0) >= 1


def _has_opaque(recipe, var):
    """True if ``var`` depends on a source/function documented as untokenizable."""
    for i in G.needed_steps(recipe, var):
        s = recipe["steps"][i]
        if s["op"] == "from_array" and recipe["sources"][s["args"]["src"]].get("tokenizable", True) is False:
            return True
        if s["op"] == "from_array" and s["args"].get("lock") is True:
            return True  # lock=True makes a fresh SerializableLock (random token) per call: not "equal inputs"
    return False


def _has_random(recipe, var):
    """Names of parents of random arrays capture the generator's state at the moment the parent is
    first tokenized, so they depend on statement order; in-process rebuilds in another order are
    not "the same program" for names (their values are checked under C23)."""
    return any(recipe["steps"][i]["op"] == "random" for i in G.needed_steps(recipe, var))


def execute(case, stats, log):
    m = H.Machine(case, stats, log, ID)
    recipe = case["recipe"]
    first_desc = {}  # program var -> descriptor at its first build in this process
    builds = []  # construction statements executed so far, in order
    dropped = set()
    blobs = {}
    mutated = set()
    disturbed = [False]

    def opaque(var):
        o = m.origin.get(var)
        return o is None or _has_opaque(recipe, o)

    def check_same(i, what, a, b, var, fields=FIELDS + ("value",), other_config=False):
        d = diff_desc(a, b, fields, other_config)
        if d:
            raise Violation(ID, what, f"event {i}: {var}: {d[0]} differs: {d[1]!r} vs {d[2]!r}", step=i)

    for i, ev in enumerate(case["history"]):
        kind = ev["ev"]
        var = ev.get("var")
        if var is not None and kind != "build" and var not in m.pool:
            continue
        if kind == "dump":
            try:
                blob_ = cloudpickle.dumps(m.pool[var])  # first the bytes, then the look at the collection
                blobs[ev["slot"]] = (blob_, m.origin.get(var), describe(m.pool[var]), var)
            except Exception as e:  # noqa: BLE001
                if opaque(var):
                    continue
                raise Violation(ID, "pickle-raises", f"event {i}: pickling {var} raised {type(e).__name__}: {str(e)[:200]}", step=i)
            continue
        if kind == "load":
            if ev["slot"] not in blobs:
                continue
            blob, org, desc0, v0 = blobs[ev["slot"]]
            import dask

            # the configuration in effect while the copy is unpickled and first read may differ from
            # the one it was dumped under (scoped, so later rebuilds still see the history's config)
            with dask.config.set(ev.get("config") or {}):
                try:
                    y = pickle.loads(blob)
                except Exception as e:  # noqa: BLE001
                    raise Violation(ID, "unpickle-raises", f"event {i}: unpickling {v0} raised {type(e).__name__}: {str(e)[:200]}", step=i)
                desc1 = describe(y)
            if ev.get("config"):
                stats["fault.load_under_other_config"] = stats.get("fault.load_under_other_config", 0) + 1
            m.pool[ev["out"]] = y
            m.origin[ev["out"]] = org
            stats["pickle_checks"] = stats.get("pickle_checks", 0) + 1
            check_same(i, "pickle-changes-collection", desc0, desc1,
                       f"{v0} (dumped earlier, loaded now{' under ' + str(ev['config']) if ev.get('config') else ''})", PICKLE_FIELDS,
                       other_config=bool(ev.get("config")))
            continue
        if kind == "restart":
            vs = [v for v in ev["vars"] if v in m.pool]
            items, local = [], []
            for v in vs:
                x = m.pool[v]
                o = m.origin.get(v)
                # rebuilding is only "the same program" if nothing was dropped and re-created in between
                # names of PARENTS of random arrays capture the generator object's state when the parent is first
                # tokenized, and which generator object a random node holds depends on whether the singleton
                # registry handed back an older instance: after an evict/gc the verifier (which replays builds,
                # not evictions) would not be building "the same program" any more (DESIGN 6.3, unclaimed)
                same_program = not (disturbed[0] and o in m.by_out and _has_random(recipe, o))
                it = {"var": o, "rebuild": bool(o in m.by_out and not opaque(v) and v == o and v not in mutated and not dropped
                                                and same_program)}
                try:
                    it["blob"] = base64.b64encode(cloudpickle.dumps(x)).decode()
                except Exception as e:  # noqa: BLE001
                    if not opaque(v):
                        raise Violation(ID, "pickle-raises", f"event {i}: pickling {v} raised {type(e).__name__}: {str(e)[:200]}", step=i)
                    it["blob"] = None
                if not it["rebuild"] and not it["blob"]:
                    continue
                if ev.get("recv_config"):
                    it["recv_config"] = ev["recv_config"]
                    stats["fault.restart_under_other_config"] = stats.get("fault.restart_under_other_config", 0) + 1
                items.append(it)
                local.append((v, describe(x)))
            if not items:
                continue
            ver = Verifier.get(case.get("seed", 0))
            ans = ver.ask({"cmd": "verify", "prop": ID, "recipe": recipe, "items": items, "builds": builds})
            if ans.get("status") == "harness-error":
                raise HarnessError("verifier: " + str(ans.get("detail"))[-800:])
            stats["fault.restart"] = stats.get("fault.restart", 0) + 1
            for (v, here), it, res in zip(local, items, ans["items"]):
                if "unpickled" in res:
                    stats["cross_process_checks"] = stats.get("cross_process_checks", 0) + 1
                    if "error" in res["unpickled"]:
                        raise Violation(ID, "unpickle-raises", f"event {i}: unpickling {v} in a fresh interpreter raised {res['unpickled']['error']}", step=i)
                    check_same(i, "pickle-changes-collection", here, res["unpickled"],
                               f"{v} unpickled in a fresh interpreter (PYTHONHASHSEED={ans.get('hashseed')}"
                               f"{', receiver config ' + str(ev['recv_config']) if ev.get('recv_config') else ''})", PICKLE_FIELDS,
                               other_config=bool(ev.get("recv_config")))
                    if here.get("graph_keys") != res["unpickled"].get("graph_keys"):
                        stats["unclaimed.graph_keys_differ_after_pickle"] = stats.get("unclaimed.graph_keys_differ_after_pickle", 0) + 1
                if "rebuilt" in res:
                    stats["cross_process_checks"] = stats.get("cross_process_checks", 0) + 1
                    if "error" in res["rebuilt"]:
                        continue
                    check_same(i, "rebuild-in-fresh-process-differs", here, res["rebuilt"],
                               f"{v} rebuilt from equal inputs in a fresh interpreter (PYTHONHASHSEED={ans.get('hashseed')})")
            log.append([i, "restart", vs, [h["name"] if not opaque(v) else "?" for v, h in local]])
            continue
        before = describe(m.pool[var], with_value=False) if kind in ("inspect", "graph", "compute", "optimize") and var in m.pool else None
        if kind == "build":
            # equal inputs, not identical ones: first builds share equal inner chunk tuples (one object
            # used for several axes), forced rebuilds and the fresh-interpreter rebuild use distinct objects
            G.IDENTITY[0] = "fresh" if ev.get("force") else "shared"
        try:
            out = m.apply(ev)
        except Violation:
            raise
        except Exception as e:  # noqa: BLE001
            if kind == "build":
                raise Invalid(f"build raised {type(e).__name__}: {str(e)[:200]}")
            if kind == "pickle" and not opaque(var):
                raise Violation(ID, "pickle-raises", f"event {i}: pickle round trip of {var} raised {type(e).__name__}: {str(e)[:200]}", step=i)
            log.append([i, kind, var, "raised-ignored"])
            continue
        if kind == "drop":
            dropped.add(var)
        if kind in ("drop", "gc", "evict"):
            disturbed[0] = True
        if kind == "build":
            builds.append({"var": var, "force": ev.get("force", False)})
            x = out["x"]
            if ev.get("lazy") and var not in first_desc:
                stats["probe.lazy_build"] = stats.get("probe.lazy_build", 0) + 1
                log.append([i, "build-lazy", var])
                continue
            d = describe(x)
            if var in first_desc and not opaque(var) and not _has_random(recipe, var):
                stats["rebuild_checks"] = stats.get("rebuild_checks", 0) + 1
                check_same(i, "rebuild-in-process-differs", first_desc[var], d, f"{var} rebuilt from equal inputs in this process")
            first_desc.setdefault(var, d)
            log.append([i, "build", var, d["name"] if not opaque(var) else "?", d["keys"] if not opaque(var) else "?"])
        elif kind == "pickle":
            x, y = m.pool[var], out["y"]
            stats["pickle_checks"] = stats.get("pickle_checks", 0) + 1
            check_same(i, "pickle-changes-collection", describe(x), describe(y), f"{var} after an in-process pickle round trip", PICKLE_FIELDS)
            log.append([i, "pickle", var])
        elif before is not None and var in m.pool:
            # per-instance stability: accessing metadata / computing never changes the name or keys
            after = describe(m.pool[var], with_value=False)
            check_same(i, "name-not-stable", before, after, f"{var} before/after {kind}", fields=("name", "keys", "chunks", "dtype", "frisky_keys"))
            log.append([i, kind, var])
        else:
            log.append([i, kind, var])


def candidates(case):
    hist = case["history"]
    for h in H.delete_each(hist):
        c = dict(case)
        c["history"] = h
        yield c
    yield from (c for c in c09.candidates(case) if c.get("recipe") is not case.get("recipe"))


def _pre_f12(case, result):
    # numpy normalises a masked array when it is pickled or viewed -- ``nomask`` becomes a full
    # boolean mask and the uncast DEFAULT fill value (int64 999999 / float64 1e20) is cast to the
    # array's dtype -- so the token of EVERY masked meta changes across a pickle round trip, whatever
    # its dtype (first seen for small ints, where even the fill value's number changes: 999999 -> 63).
    if result.get("cls") not in ("rebuild-in-process-differs", "rebuild-in-fresh-process-differs"):
        return False
    srcs = case["recipe"]["sources"]
    # the same mechanism for unknown chunk sizes: a pickled nan is another object, (nan,) != (nan,), so
    # nodes carried by an unpickled copy compare/tokenize differently from freshly built ones
    unknown = any(s_["op"] in ("dask_index", "where_mask") for s_ in case["recipe"]["steps"])
    return (any(sp.get("masked") for sp in srcs.values()) or unknown) and any(
        e["ev"] in ("pickle", "load") for e in case["history"])


def _cfgs(e):
    return [c for c in (e.get("recv_config"), e.get("config") if e["ev"] == "load" else None) if c]


def _pre_f15(case, result):
    # F15: a raw Blockwise/Elemwise over differently chunked operands advertises the chunks unified under
    # the policy in effect when ``.chunks`` is FIRST READ; pickled before that (nothing cached travels),
    # the receiver resolves them under ITS unify policy/limit -> same name, other chunks/keys.
    if result.get("cls") != "pickle-changes-collection":
        return False
    return any(k in H.UNIFY_KEYS for e in case["history"] for c in _cfgs(e) for k in c)


def _abl_f15(case):
    hist = []
    for e in case["history"]:
        e = dict(e)
        for f in ("recv_config", "config"):
            if isinstance(e.get(f), dict) and (f == "recv_config" or e["ev"] == "load"):
                e[f] = {k: v for k, v in e[f].items() if k not in H.UNIFY_KEYS} or None
        hist.append(e)
    return dict(case, history=hist)


FINDING_ABLATIONS = {
    "F15": (_pre_f15, _abl_f15),
    "F12": (_pre_f12, lambda case: dict(case, history=[e for e in case["history"] if e["ev"] not in ("pickle", "load", "dump")])),
}
