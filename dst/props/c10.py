"""C10 — computation is schedule-independent and never mutates inputs (schedsim)."""

from __future__ import annotations

import random

import numpy as np

from .. import gen as G
from ..common import Invalid, UnexecutableGraph, Violation, fp, same_value, derive
from ..preempt import PreemptSim
from ..schedsim import Sim, POLICIES

ID = "C10"


def gen(rng, tier):
    ctx = G.Ctx(rng)
    names = sorted(G.OPS)
    ctx.enabled = G.swarm_subset(rng, names, 0.75, always=("from_array", "rechunk", "binary"))
    ctx.enabled.discard("random") if rng.random() < 0.5 else None
    ctx.weights = {"random": 0.6, "rechunk": 4.0, "setitem_fn": 1.5, "window": 1.5, "cumulative": 1.5}
    if rng.random() < 0.3:
        # index collections shared between a take and other consumers (kernels that normalise indices)
        ctx.enabled |= {"int_index", "take_dask"}
        ctx.weights.update({"int_index": 2.0, "take_dask": 4.0})
    ctx.p_simsource = rng.choice([0.0, 0.0, 0.3])
    ctx.p_masked = rng.choice([0.0, 0.05, 0.15])
    n = rng.randint(2, 9)
    recipe = G.gen_program(ctx, n, n_leaves=rng.randint(1, 3))
    outs = [s["out"] for s in recipe["steps"]]
    target = G.pick_target(ctx, rng)
    # fan-out: compute a second collection in the same graph sometimes
    extra = []
    if len(outs) > 1 and rng.random() < 0.4:
        extra = [rng.choice(outs)]
    nsched = 6 if tier == "quick" else 16
    scheds = []
    for i in range(nsched):
        pol = POLICIES[i % len(POLICIES)] if i < len(POLICIES) else rng.choice(POLICIES)
        scheds.append(
            {
                "policy": pol,
                "release": rng.random() < 0.5,
                "copy_p": rng.choice([0.0, 0.0, 0.5, 1.0]) if i >= 2 else 0.0,
                "seed": rng.getrandbits(32),
            }
        )
    scheds[0] = {"policy": "fifo", "release": False, "copy_p": 0.0, "seed": 0}
    # line-granular interleaving of 2-3 in-flight tasks (baton-passed threads); real locks would
    # really block a pre-empted holder's rival, so programs using lock=True are left task-atomic
    if not any(s_["op"] == "from_array" and s_["args"].get("lock") is True for s_ in recipe["steps"]):
        for _ in range(1 if tier == "quick" else 6):
            scheds.append({"policy": "preempt", "inflight": rng.choice([2, 3]), "yield_p": rng.choice([0.1, 0.3, 0.6]),
                           "release": False, "copy_p": 0.0, "seed": rng.getrandbits(32)})
    return {
        "recipe": recipe,
        "targets": [target] + extra,
        "schedules": scheds,
        "optimize_graph": rng.random() < 0.85,
    }


def shape_of(case, stats):
    return [[(s["op"], sorted(s["args"])) for s in case["recipe"]["steps"]], stats.get("order_digest")]


def nontrivial(case, stats):
    return stats.get("choice_points", 0) >= 2 and stats.get("orders_distinct", 0) >= 2


def _internal_arrays(arrs):
    out = []
    seen = set()
    for x in arrs:
        for node in x.expr.walk():
            if node._name in seen:
                continue
            seen.add(node._name)
            a = getattr(node, "operands", None)
            if type(node).__name__ == "FromArray":
                arr = node.operand("array")
                if isinstance(arr, np.ndarray):
                    out.append((node._name, arr))
    return out


def execute(case, stats, log):
    import dask
    import dask_array as da  # noqa: F401

    recipe = case["recipe"]
    try:
        env = G.build_all(recipe)
    except Exception as e:  # noqa: BLE001
        raise Invalid(f"build: {type(e).__name__}: {e}")
    xs = [env.vars[t] for t in case["targets"]]
    with dask.config.set({"array.optimize-graph": case.get("optimize_graph", True)}):
        try:
            if len(xs) == 1:
                g = dict(xs[0].__dask_graph__())
                keys = xs[0].__dask_keys__()
            else:
                g = {}
                keys = []
                for x in xs:
                    g.update(dict(x.__dask_graph__()))
                    keys.append(x.__dask_keys__())
        except Exception as e:  # noqa: BLE001
            raise Invalid(f"graph: {type(e).__name__}: {e}")
    from dask._task_spec import convert_legacy_graph

    g = convert_legacy_graph(g)
    if len(g) > 400:
        raise Invalid("graph too large")
    internal = _internal_arrays(xs)
    src_fp = {n: fp(s["user"]) for n, s in sorted(env.sources.items())}
    int_fp = [(n, fp(a)) for n, a in internal]
    stats["tasks"] = len(g)

    def run(s, monitor=True):
        if s["policy"] == "preempt":
            sim = PreemptSim(random.Random(s["seed"]), inflight=s.get("inflight", 2), yield_p=s.get("yield_p", 0.3),
                             monitor_deps=monitor, prop=ID, stats=stats)
            sim.choice_points = 0
            stats["fault.preempt_runs"] = stats.get("fault.preempt_runs", 0) + 1
        else:
            sim = Sim(random.Random(s["seed"]), policy=s["policy"], release=s["release"], copy_p=s["copy_p"],
                      monitor_deps=monitor, prop=ID, stats=stats, decisions=s.get("decisions"))
        try:
            out = sim.run(g, keys)
        except Violation:
            raise
        except UnexecutableGraph as e:
            # precondition of the property (closed, acyclic graph) fails: no order yields results, so the
            # statement ("every order yields the same results") holds vacuously -- a C04 matter, counted,
            # not reported here
            stats["unclaimed.unexecutable_graph"] = stats.get("unclaimed.unexecutable_graph", 0) + 1
            raise Invalid(f"graph is not executable under any order (C04's matter): {e}")
        except G.fakes.InjectedIOError:
            raise
        except Exception as e:  # noqa: BLE001
            out = ("raised", type(e).__name__, str(e)[:200])
        stats["steps"] = stats.get("steps", 0) + sim.steps
        return sim, out

    ref_sim, ref = run(case["schedules"][0])
    stats["choice_points"] = ref_sim.choice_points
    if isinstance(ref, tuple) and ref and ref[0] == "raised":
        # the graph does not execute at all in canonical order: not a schedule matter
        raise Invalid(f"reference run raised {ref[1]}: {ref[2]}")
    ref_fp = fp_nested(ref)
    log.append(["ref", ref_fp, len(ref_sim.order)])
    _check_sources(env, src_fp, internal, int_fp, "reference run")
    sim2, again = run(case["schedules"][0])
    if fp_nested(again) != ref_fp:
        raise Violation(ID, "reexecution-differs",
                        "the same graph object executed twice in the same (fifo) order gave different results: "
                        + str(diff_nested(ref, again)))
    orders = {tuple(ref_sim.order)}
    for i, s in enumerate(case["schedules"][1:], 1):
        sim, out = run(s)
        orders.add(tuple(sim.order))
        if isinstance(out, tuple) and out and out[0] == "raised":
            raise Violation(ID, "order-dependent-failure",
                            f"schedule {i} ({s['policy']}, release={s['release']}, copy_p={s['copy_p']}) raised "
                            f"{out[1]}: {out[2]} while the fifo order succeeded", step=i)
        if s["copy_p"]:
            r = diff_nested(ref, out, exact=None)
            cls = "copy-edge-differs"
        else:
            r = None if fp_nested(out) == ref_fp else (diff_nested(ref, out, exact=True) or "bits differ")
            cls = "order-dependent-result"
        log.append(["sched", i, s["policy"], fp_nested(out), len(sim.order)])
        if r:
            raise Violation(ID, cls,
                            f"schedule {i} ({s['policy']}, release={s['release']}, copy_p={s['copy_p']}) differs from fifo: {r}",
                            step=i)
        _check_sources(env, src_fp, internal, int_fp, f"schedule {i}")
    stats["orders_distinct"] = len(orders)
    stats["order_digest"] = derive(*sorted(hash_order(o) for o in orders)) if orders else 0
    stats["probe.multi_order_programs"] = 1 if len(orders) > 1 else 0


def hash_order(o):
    return derive(*o)


def _check_sources(env, src_fp, internal, int_fp, when):
    for n, s in sorted(env.sources.items()):
        if fp(s["user"]) != src_fp[n]:
            raise Violation(ID, "source-mutated", f"user source array {n} changed during {when}")
        obj = s["obj"]
        if hasattr(obj, "unchanged") and not obj.unchanged():
            raise Violation(ID, "source-mutated", f"SimSource {n} backing changed during {when}")
    for (n, a), (_, f0) in zip(internal, int_fp):
        if fp(a) != f0:
            raise Violation(ID, "source-mutated", f"array held by FromArray node {n} changed during {when}")


def fp_nested(v):
    if isinstance(v, list):
        return [fp_nested(x) for x in v]
    return fp(v)


def diff_nested(a, b, exact=None, path=()):
    if isinstance(a, list) and isinstance(b, list):
        if len(a) != len(b):
            return f"{path}: lengths differ"
        for i, (x, y) in enumerate(zip(a, b)):
            r = diff_nested(x, y, exact, path + (i,))
            if r:
                return r
        return None
    if isinstance(a, list) != isinstance(b, list):
        return f"{path}: structure differs"
    try:
        r = same_value(a, b, exact=exact)
    except Exception as e:  # noqa: BLE001
        r = f"incomparable: {e}"
    return f"block {path}: {r}" if r else None


def candidates(case):
    rec = case["recipe"]
    # fewer schedules
    if len(case["schedules"]) > 2:
        for i in range(1, len(case["schedules"])):
            c = dict(case)
            c["schedules"] = [case["schedules"][0], case["schedules"][i]]
            yield c
    if len(case["targets"]) > 1:
        for t in case["targets"]:
            c = dict(case)
            c["targets"] = [t]
            yield c
    for i in reversed(range(len(rec["steps"]))):
        r = G.drop_step(rec, i)
        if r is None:
            continue
        new, dead, (victim, repl) = r
        tg = []
        for t in case["targets"]:
            if t == victim:
                t = repl
            if t is None or t in dead:
                continue
            tg.append(t)
        if not tg:
            continue
        c = dict(case)
        c["recipe"] = new
        c["targets"] = tg
        yield c
    for s_i, s in enumerate(case["schedules"]):
        if s.get("release") or s.get("copy_p"):
            c = dict(case)
            c["schedules"] = list(case["schedules"])
            c["schedules"][s_i] = dict(s, release=False, copy_p=0.0)
            yield c
