"""C17 — chunk unification (history x configuration part): which policy's layout a
materialisation gets must be the policy in effect, whatever was lowered before (histsim)."""

from __future__ import annotations

import math

import numpy as np

from .. import gen as G
from .. import histsim as H
from ..common import Invalid, Violation, chunks_json, fp, same_value
from . import c09

ID = "C17"

POLICIES = ["auto", "coarse", "refine"]
LIMITS = [None, "64B", "256B", "1KiB", "2GiB"]


def _chunking(rng, n, style):
    if style == "one":
        return [n]
    if style == "fine":
        k = rng.choice([1, 2])
        return [k] * (n // k) + ([n % k] if n % k else [])
    if style == "coarse":
        k = rng.choice([d for d in (3, 4, 6, n) if d <= n])
        return [k] * (n // k) + ([n % k] if n % k else [])
    if style == "shift":
        k = max(2, n // 3)
        s = rng.randint(1, k - 1) if k > 1 else 1
        out = [s]
        rest = n - s
        while rest > 0:
            out.append(min(k, rest))
            rest -= min(k, rest)
        return out
    return G.split_dim(rng, n)


def gen(rng, tier):
    nd = rng.choice([1, 2, 2])
    shape = [rng.choice([6, 8, 12]) for _ in range(nd)]
    nops = rng.randint(2, 4)
    sources = {}
    steps = []
    ops = []
    for i in range(nops):
        sname = f"s{i}"
        shp = list(shape)
        if rng.random() < 0.25:
            # broadcast pattern: drop leading axis or size-1 axis
            if nd == 2 and rng.random() < 0.5:
                shp = shp[1:]
            else:
                shp[rng.randrange(len(shp))] = 1
        sources[sname] = {"shape": shp, "dtype": rng.choice(["f8", "f8", "f4", "i2", "i8"]), "offset": i * 7, "kind": "ndarray"}
        chunks = [_chunking(rng, n, rng.choice(["fine", "coarse", "shift", "rand", "one"])) for n in shp]
        v = f"v{len(steps)}"
        steps.append({"op": "from_array", "in": [], "args": {"src": sname, "chunks": chunks}, "out": v})
        if rng.random() < 0.5:
            # non-IO operand so that an inserted rechunk stays visible (not absorbed into the read)
            v2 = f"v{len(steps)}"
            steps.append({"op": "unary", "in": [v], "args": {"f": "addc", "c": 0}, "out": v2})
            v = v2
        ops.append(v)
    cur = ops[0]
    targets = []
    p_generic = rng.choice([0.0, 0.0, 0.3, 0.6])
    for o in ops[1:]:
        v = f"v{len(steps)}"
        same_shape = sources[_src_of(steps, cur)]["shape"] == sources[_src_of(steps, o)]["shape"] if _src_of(steps, cur) and _src_of(steps, o) else False
        if same_shape and rng.random() < p_generic:
            # a generic Blockwise node (da.blockwise / map_blocks over two arrays): Blockwise._lower, not Elemwise._lower
            # (da.blockwise aligns its operands; da.map_blocks passes align_arrays=False by design, as upstream)
            steps.append({"op": "blockwise2", "in": [cur, o], "args": {"how": "blockwise"}, "out": v})
        else:
            steps.append({"op": "binary", "in": [cur, o], "args": {"f": rng.choice(["add", "mul", "maximum", "sub"])}, "out": v})
        cur = v
        targets.append(v)
    recipe = {"sources": sources, "generators": {}, "steps": steps}
    z = targets[-1]
    hist = []
    hist.append({"ev": "config", "key": "array.unify-chunks-policy", "value": rng.choice(POLICIES)})
    if rng.random() < 0.6:
        hist.append({"ev": "config", "key": "array.unify-chunks-limit", "value": rng.choice(LIMITS)})
    built = []
    n = rng.randint(4, 12)
    while len(hist) < n:
        r = rng.random()
        live = built
        if not live or r < 0.15:
            t = rng.choice(targets)
            hist.append({"ev": "build", "var": t, "force": t in built})
            if t not in built:
                built.append(t)
        elif r < 0.5:
            hist.append({"ev": "materialise", "var": rng.choice(live)})
        elif r < 0.62:
            hist.append(dict({"ev": "compute", "var": rng.choice(live)}, **H.rand_sched(rng)))
        elif r < 0.82:
            if rng.random() < 0.7:
                hist.append({"ev": "config", "key": "array.unify-chunks-policy", "value": rng.choice(POLICIES)})
            else:
                hist.append({"ev": "config", "key": "array.unify-chunks-limit", "value": rng.choice(LIMITS)})
        elif r < 0.88:
            hist.append({"ev": "evict", "what": rng.choice(["lower", "singleton"])})
        elif r < 0.93:
            hist.append({"ev": "gc"})
        else:
            v = rng.choice(live)
            built.remove(v)
            hist.append({"ev": "drop", "var": v})
    for t in built:
        hist.append({"ev": "materialise", "var": t})
        hist.append(dict({"ev": "compute", "var": t}, **H.rand_sched(rng)))
    return {"recipe": recipe, "targets": targets, "history": hist}


def _src_of(steps, v):
    """The source name a chain of unary steps starts from (None if v is a combined node)."""
    by = {s_["out"]: s_ for s_ in steps}
    while v in by:
        s_ = by[v]
        if s_["op"] == "from_array":
            return s_["args"]["src"]
        if s_["op"] != "unary":
            return None
        v = s_["in"][0]
    return None


def shape_of(case, stats):
    return [[(s["op"], str(s["args"].get("chunks"))) for s in case["recipe"]["steps"]],
            [(e["ev"], e.get("key"), e.get("value")) for e in case["history"]]]


def nontrivial(case, stats):
    return stats.get("materialisations", 0) >= 2 and stats.get("operands_needing_unify", 0) >= 1


def _bounds(chunks_1d):
    out = set()
    acc = 0
    for c in chunks_1d[:-1]:
        acc += c
        out.add(acc)
    return out


def _max_block_bytes(a):
    return a.dtype.itemsize * int(np.prod([max(c) if c else 0 for c in a.chunks])) if a.chunks else a.dtype.itemsize


def _strip_rechunk(node):
    n = node
    for _ in range(4):
        if type(n).__name__ in ("TasksRechunk", "Rechunk", "P2PRechunk"):
            n = n.array
        else:
            break
    return n


def _policy_dependent(node):
    """True iff the chunks ``node`` ADVERTISES are themselves a unification result, i.e. some
    multi-operand blockwise node in its subtree has operands whose layouts differ on a shared
    (non-broadcast) axis.  Only then can the advertised layout have been decided under another
    policy than the one in effect now (finding F19); the chunks of leaves and of chains over one
    operand do not depend on any unify setting."""
    from dask_array._expr import ArrayExpr

    for n in node.walk():
        args = getattr(n, "elemwise_args", None)
        if args is None:
            args = getattr(n, "args", None)
            if args is None or not hasattr(n, "out_ind"):
                continue
            args = args[::2] if isinstance(args, (list, tuple)) else ()
        arrs = [a for a in args if isinstance(a, ArrayExpr) and a.ndim > 0]
        if len(arrs) < 2:
            continue
        try:
            nd = max(a.ndim for a in arrs)
            for ax in range(nd):
                lay = set()
                for a in arrs:
                    i = ax - (nd - a.ndim)
                    if i < 0 or a.shape[i] == 1:
                        continue
                    lay.add(tuple(a.chunks[i]))
                if len(lay) > 1:
                    return True
        except Exception:  # noqa: BLE001
            return True
    return False


def check_pair(raw, low, policy, limit, stats, where, depth=0):
    from dask_array._blockwise import Blockwise, Elemwise
    from dask_array._expr import ArrayExpr

    def operands(n):
        if isinstance(n, Elemwise):
            return [a for a in n.elemwise_args if isinstance(a, ArrayExpr)]
        if type(n) is Blockwise and all(tuple(i) == tuple(n.out_ind) for i in n.args[1::2] if i is not None):
            # generic blockwise whose operands all carry the output's index labels (positional correspondence)
            return [a for a in n.args[::2] if isinstance(a, ArrayExpr)]
        return None

    rargs, largs = operands(raw), operands(low)
    if rargs is None or largs is None or type(raw) is not type(low):
        stats["skipped_pairs"] = stats.get("skipped_pairs", 0) + 1
        return
    if type(raw) is Blockwise:
        stats["probe.generic_blockwise_pairs"] = stats.get("probe.generic_blockwise_pairs", 0) + 1
    if len(rargs) != len(largs) or any(r.shape != l.shape for r, l in zip(rargs, largs)):
        stats["skipped_pairs"] = stats.get("skipped_pairs", 0) + 1
        return
    stats["pairs_checked"] = stats.get("pairs_checked", 0) + 1
    out_ndim = len(low.shape)
    # (1) one common layout per output axis (broadcast axes excepted)
    for ax in range(out_ndim):
        layouts = set()
        for l in largs:
            a = ax - (out_ndim - l.ndim)
            if a < 0 or l.shape[a] == 1 and low.shape[ax] != 1:
                continue
            layouts.add(tuple(l.chunks[a]))
        if len(layouts) > 1:
            raise Violation(ID, "operands-not-aligned",
                            f"{where}: lowered operands of {low._name} have different layouts on axis {ax}: {sorted(layouts)}")
    for i, (r, l) in enumerate(zip(rargs, largs)):
        if r.chunks != l.chunks:
            stats["operands_needing_unify"] = stats.get("operands_needing_unify", 0) + 1
        # (2) refine => splits only
        if policy == "refine":
            for ax in range(r.ndim):
                if not _bounds(r.chunks[ax]) <= _bounds(l.chunks[ax]):
                    raise Violation(ID, "refine-merged-blocks",
                                    f"{where}: policy 'refine' is in effect but operand {i} of {low._name} went from chunks "
                                    f"{r.chunks} to {l.chunks}: blocks were merged on axis {ax}",
                                    info={"operand_policy_dependent": _policy_dependent(r)})
        # (3) no operand block grows beyond max(limit, own largest block)
        if limit is not None:
            own = _max_block_bytes(r)
            new = _max_block_bytes(l)
            if new > max(limit, own):
                raise Violation(ID, "block-inflated-beyond-limit",
                                f"{where}: operand {i} of {low._name} grew from {own} B blocks ({r.chunks}) to {new} B "
                                f"({l.chunks}) with unify-chunks-limit={limit} B under policy {policy}",
                                info={"operand_policy_dependent": _policy_dependent(r)})
        check_pair(r, _strip_rechunk(l), policy, limit, stats, where, depth + 1)


def execute(case, stats, log):
    import dask
    from dask.utils import parse_bytes
    from dask_array._materialize import _lower

    m = H.Machine(case, stats, log, ID)
    m.pristine_phase(case["targets"])
    for i, ev in enumerate(case["history"]):
        var = ev.get("var")
        if var is not None and ev["ev"] != "build" and var not in m.pool:
            continue
        if ev["ev"] == "rebuild_fresh":
            # only ever inserted by the F19 ablation: every live program variable is constructed anew
            # under the configuration in effect NOW (no singleton of the earlier construction is
            # reused, so no advertised layout cached under an earlier policy survives), while the
            # lowering cache and the lowered trees kept alive stay exactly as the history left them
            from ..common import all_singleton_registries

            for _, reg in all_singleton_registries():
                reg.clear()
            live = [v for v in m.pool if m.origin.get(v) == v and v in m.by_out]
            m.env.vars.clear()
            m.env.rngs.clear()
            for v in live:
                m.pool.pop(v, None)
            for v in live:
                m.build(v)
            continue
        if ev["ev"] == "materialise":
            x = m.pool[var]
            policy = dask.config.get("array.unify-chunks-policy", "auto")
            limit = dask.config.get("array.unify-chunks-limit", None)
            limit_b = parse_bytes(limit) if isinstance(limit, str) else limit
            m.stepno += 1
            try:
                low = _lower(x.expr, optimize_graph=False)
            except Exception as e:  # noqa: BLE001
                raise Violation(ID, "lowering-raises", f"event {i}: lowering {var} raised {type(e).__name__}: {str(e)[:200]}", step=i)
            stats["materialisations"] = stats.get("materialisations", 0) + 1
            m.keep = getattr(m, "keep", [])
            m.keep.append(low)  # weak cache: the lowered tree stays alive like a collection's _lowered_expr would
            check_pair(x.expr, low, policy, limit_b, stats, f"event {i} materialise({var}) under policy={policy} limit={limit}")
            log.append([i, "materialise", var, policy, str(limit), low._name])
            continue
        try:
            out = m.apply(ev)
        except Violation:
            raise
        except Exception as e:  # noqa: BLE001
            if ev["ev"] == "build":
                raise Invalid(f"build raised {e}")
            if ev["ev"] == "compute":
                raise Violation(ID, "compute-raises", f"event {i}: compute({var}) raised {type(e).__name__}: {str(e)[:200]}", step=i)
            continue
        if ev["ev"] == "compute":
            pr = m.pristine.get(m.origin.get(var))
            if pr and pr["error"] is None:
                r = same_value(out["value"], pr["value"])
                stats["value_checks"] = stats.get("value_checks", 0) + 1
                if r:
                    raise Violation(ID, "value-depends-on-policy",
                                    f"event {i}: compute({var}) under {dict(m.config_history)} differs from the default-policy value: {r}", step=i)
            log.append([i, "compute", var, fp(out["value"])])
        elif ev["ev"] == "drop":
            m.keep = []
        else:
            log.append([i, ev["ev"], var, ev.get("key"), str(ev.get("value"))])


def candidates(case):
    hist = case["history"]
    for h in H.delete_each(hist):
        c = dict(case)
        c["history"] = h
        yield c


# --------------------------------------------------------------------------- known finding F19 (same root as in C09)


def _pre_f19(case, result):
    """A unify-chunks policy/limit flip lies between a build and a later materialisation/compute, i.e.
    some expression is materialised under another configuration than it was constructed under."""
    if result.get("cls") in ("refine-merged-blocks", "block-inflated-beyond-limit") and \
            (result.get("info") or {}).get("operand_policy_dependent") is False:
        # the operand's advertised chunks cannot depend on any unify setting (a leaf or a chain over
        # one operand): F19 -- a layout ADVERTISED under another policy -- cannot explain it
        return False
    seen_build = False
    flipped_after_build = False
    for e in case["history"]:
        if e["ev"] == "build":
            seen_build = True
        elif H.is_unify_flip(e) and seen_build:
            flipped_after_build = True
        elif e["ev"] in ("materialise", "compute") and flipped_after_build:
            return True
    return False


def _abl_f19(case):
    """NOT 'remove the flips' (that would also hide a stale lowering-cache entry, which is what this
    check exists to find): every materialisation keeps its configuration and its place in the history,
    but the expression it materialises is constructed afresh under that configuration first.  The
    lowering cache and everything lowered earlier are left as the history made them, so a layout
    served from an earlier policy's lowering still fails the ablated run and is reported."""
    hist = []
    for e in case["history"]:
        if e["ev"] in ("materialise", "compute"):
            hist.append({"ev": "rebuild_fresh"})
        hist.append(e)
    return dict(case, history=hist)


FINDING_ABLATIONS = {
    "F19": (_pre_f19, _abl_f19),
}
