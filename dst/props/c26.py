"""C26 — xarray integration is strictly opt-in (importsim: one fresh interpreter per history)."""

from __future__ import annotations

import json
import os
import pkgutil
import subprocess
import sys

from ..common import HarnessError, Invalid, Violation, derive

ID = "C26"
CHILD = os.path.join(os.path.dirname(os.path.dirname(os.path.abspath(__file__))), "importsim_child.py")


def all_modules():
    import dask_array

    mods = ["dask_array"]
    for m in pkgutil.walk_packages(dask_array.__path__, "dask_array."):
        if ".tests" in m.name or m.name.endswith(".conftest"):
            continue
        mods.append(m.name)
    return sorted(mods)


def gen(rng, tier):
    mods = all_modules()
    order = list(mods)
    rng.shuffle(order)
    if rng.random() < 0.5:
        # the package root first, as most users do
        order.remove("dask_array")
        order.insert(0, "dask_array")
    steps = [{"op": "import", "mod": m} for m in order]
    n = len(steps)

    def insert(step, where):
        pos = {"start": 0, "end": len(steps)}.get(where)
        if pos is None:
            pos = rng.randint(0, len(steps))
        steps.insert(pos, step)
        return pos

    xpos = rng.choice(["start", "mid", "end", "mid"])
    insert({"op": "import", "mod": "xarray"}, xpos)
    if rng.random() < 0.7:
        insert({"op": "import", "mod": "xarray.namedarray.parallelcompat"}, "mid")
    for _ in range(rng.randint(0, 3)):
        insert({"op": "xarray_touch"}, "mid")
    for _ in range(rng.randint(0, 2)):
        insert({"op": "build_chunked"}, "mid")
    for _ in range(rng.randint(0, 2)):
        insert({"op": "isactive"}, "mid")
    if rng.random() < 0.25:
        insert({"op": "cache_clear"}, "mid")
    reg = rng.choice(["never", "never", "mid", "start", "end"])
    if reg != "never":
        p = insert({"op": "register"}, reg)
        if rng.random() < 0.5:
            steps.insert(rng.randint(p + 1, len(steps)), {"op": "compute_check"})
        if rng.random() < 0.3:
            steps.insert(rng.randint(p + 1, len(steps)), {"op": "cache_clear"})
        if rng.random() < 0.3:
            steps.insert(rng.randint(p + 1, len(steps)), {"op": "register"})
    steps.append({"op": "isactive"})
    steps.append({"op": "build_chunked"})
    # the interpreter's start configuration (the statement quantifies over configurations): dask reads
    # DASK_* environment variables when it is first imported
    cfg = {}
    r = rng.random()
    if r < 0.35:
        cfg["DASK_ARRAY__QUERY_PLANNING"] = "True"
    elif r < 0.5:
        cfg["DASK_ARRAY__QUERY_PLANNING"] = "False"
    if rng.random() < 0.15:
        cfg["DASK_ARRAY__CHUNK_SIZE"] = rng.choice(["1KiB", "64MiB"])
    return {"steps": steps, "nmods": n, "child_hashseed": rng.randrange(1, 2**31), "child_config": cfg}


def shape_of(case, stats):
    return [[(s["op"], s.get("mod")) for s in case["steps"]], sorted((case.get("child_config") or {}).items())]


def nontrivial(case, stats):
    return stats.get("imports", 0) >= 100


def check_pyproject():
    """No 'xarray.chunkmanagers' entry point may be advertised by the source tree either."""
    import tomllib

    repo = os.environ.get("VERIF_REPO", "/repo")
    path = os.path.join(repo, "pyproject.toml")
    if not os.path.exists(path):
        return
    with open(path, "rb") as f:
        d = tomllib.load(f)
    eps = (d.get("project", {}).get("entry-points", {}) or {})
    if "xarray.chunkmanagers" in eps:
        raise Violation(ID, "entry-point-advertised",
                        f"pyproject.toml advertises an xarray.chunkmanagers entry point: {eps['xarray.chunkmanagers']} "
                        f"(activates on install, without register())")


def execute(case, stats, log):
    check_pyproject()
    env = dict(os.environ)
    env["PYTHONHASHSEED"] = str(case["child_hashseed"])
    env["PYTHONDONTWRITEBYTECODE"] = "1"
    for k in [k for k in env if k.startswith("DASK_")]:
        env.pop(k)
    for k, v in (case.get("child_config") or {}).items():
        env[k] = v
        stats[f"fault.start_config.{k}={v}"] = 1
    repo = os.environ.get("VERIF_REPO")
    if repo and os.environ.get("VERIF_KEEP_PYTHONPATH"):
        env["PYTHONPATH"] = repo
    else:
        env.pop("PYTHONPATH", None)
    try:
        r = subprocess.run([sys.executable, "-u", CHILD], input=json.dumps({"steps": case["steps"]}), capture_output=True,
                           text=True, env=env, cwd="/tmp", timeout=240)
    except subprocess.TimeoutExpired:
        raise HarnessError("importsim child timed out")
    line = r.stdout.strip().splitlines()[-1] if r.stdout.strip() else ""
    try:
        res = json.loads(line)
    except Exception:  # noqa: BLE001
        raise HarnessError(f"importsim child produced no result: rc={r.returncode} stderr={r.stderr[-1500:]}")
    for k, v in (res.get("stats") or {}).items():
        stats[k] = stats.get(k, 0) + v
    stats["fault.cache_clear"] = sum(1 for s in case["steps"] if s["op"] == "cache_clear")
    stats["probe.register_calls"] = sum(1 for s in case["steps"] if s["op"] == "register")
    if res["status"] == "harness-error":
        raise HarnessError("importsim child: " + res.get("detail", ""))
    for rec in res.get("log", []):
        log.append(rec)
    if res["status"] == "violation":
        raise Violation(ID, res["cls"], res["detail"], step=res.get("step"))


def candidates(case):
    if case.get("child_config"):
        yield dict(case, child_config={})
    steps = case["steps"]
    n = len(steps)
    size = n // 2
    while size >= 1:
        for start in range(0, n, size):
            c = dict(case)
            c["steps"] = steps[:start] + steps[start + size:]
            if c["steps"]:
                yield c
        size //= 2
