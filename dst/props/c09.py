"""C09 — results do not depend on materialization history or planner configuration (histsim)."""

from __future__ import annotations

from .. import gen as G
from .. import histsim as H
from ..common import Invalid, Violation, chunks_json, fp, same_value

ID = "C09"

MATERIALIZE = ("graph", "compute", "persist", "optimize", "compute_many")
FAULTS = ("config", "drop", "gc", "evict", "config_refresh")


def gen_programs(rng, ctx, tier, nmin=4, nmax=12):
    n = rng.randint(nmin, nmax)
    recipe = G.gen_program(ctx, n, n_leaves=rng.randint(1, 3))
    outs = [s["out"] for s in recipe["steps"]]
    k = min(len(outs), rng.randint(2, 5))
    targets = []
    for _ in range(k * 3):
        t = G.pick_target(ctx, rng, 0.6)
        if t not in targets:
            targets.append(t)
        if len(targets) >= k:
            break
    return recipe, targets


def _chunking(rng, n, style):
    if style == "one":
        return [n]
    k = min({"fine": rng.choice([1, 2]), "coarse": rng.choice([3, 4, 5])}.get(style) or rng.randint(1, n), n)
    out = [k] * (n // k) + ([n % k] if n % k else [])
    if style == "shift" and len(out) > 1 and out[-1] > 1:
        out = [1] + out[:-1] + [out[-1] - 1]
    return out


def gen_layout_drift(rng):
    """Structured scenario: an elementwise node over two DIFFERENTLY CHUNKED sources (its layout is a
    unification result, i.e. depends on array.unify-chunks-policy/-limit) directly under a consumer that
    plans on its input's block grid (native sliding-window reduction), with the unify configuration flipped
    between construction and computation.  (tools/f19_census.py runs the same family in bulk.)"""
    other_keys = rng.random() < 0.4  # flip keys that are NOT supposed to influence unification (chunk-size)
    nd = 2 if other_keys else rng.choice([1, 2])
    shape = [rng.choice([6, 8]) for _ in range(nd)]
    srcs, steps = {}, []
    for i in range(2):
        srcs[f"s{i}"] = {"shape": shape, "dtype": "f8" if other_keys else rng.choice(["f8", "f8", "i8", "f4"]), "offset": 3 + 11 * i,
                         "kind": "ndarray"}
        styles = (["coarse", "one"] if i == 0 else ["fine", "shift"]) if other_keys else ["fine", "coarse", "shift", "one", "rand"]
        ch = [_chunking(rng, n, rng.choice(styles)) for n in shape]
        steps.append({"op": "from_array", "in": [], "args": {"src": f"s{i}", "chunks": ch}, "out": f"v{i}"})
    steps.append({"op": "binary", "in": ["v0", "v1"], "args": {"f": rng.choice(["add", "mul", "maximum", "sub"])}, "out": "v2"})
    ax = rng.randrange(nd)
    if rng.random() < (0.3 if other_keys else 0.5):
        steps.append({"op": "window", "in": ["v2"], "args": {"axis": ax, "w": rng.randint(2, min(4, shape[ax])),
                                                           "reduce": rng.choice(["mean", "sum", "max", "min", "std"])}, "out": "v3"})
    else:
        # a tree reduction: its depth is planned on the block grid of its input
        steps.append({"op": "reduction", "in": ["v2"], "args": {"f": rng.choice(["sum", "max", "mean", "min"]),
                                                              "axis": rng.choice([None, ax])}, "out": "v3"})
    pol = H.CONFIG_DOMAIN["array.unify-chunks-policy"]
    lim = [None, "16B", "32B", "64B", "1KiB"]
    if other_keys:
        # the same drift scenario with keys that are NOT supposed to influence unification at all
        cs = ["16B", "128MiB"] if rng.random() < 0.7 else ["16B", "64B", "256B", "128MiB"]
        rng.shuffle(cs)
        hist = [{"ev": "config", "key": "array.chunk-size", "value": cs[0]}]
        if rng.random() < 0.85:
            hist.append({"ev": "config", "key": "split_every", "value": 2})
        hist.append({"ev": "build", "var": "v3"})
        if rng.random() < 0.5:
            hist.append({"ev": "inspect", "var": "v3", "acc": ["chunks", "shape"]})
        if rng.random() < 0.5:
            hist.append({"ev": "build", "var": "v2"})
            hist.append(dict({"ev": "compute", "var": "v2"}, **H.rand_sched(rng)))
        hist.append({"ev": "config", "key": "array.chunk-size", "value": cs[1]})
        if rng.random() < 0.4:
            hist.append({"ev": "build", "var": "v3", "force": rng.random() < 0.5})
        hist.append(dict({"ev": "compute", "var": "v3"}, **H.rand_sched(rng)))
        return {"scribble": False, "recipe": {"sources": srcs, "generators": {}, "steps": steps}, "targets": ["v3", "v2"], "history": hist}
    hist = [{"ev": "config", "key": "array.unify-chunks-policy", "value": rng.choice(pol)}]
    if rng.random() < 0.6:
        hist.append({"ev": "config", "key": "array.unify-chunks-limit", "value": rng.choice(lim)})
    if rng.random() < 0.5:
        hist.append({"ev": "config", "key": "split_every", "value": 2})
    hist.append({"ev": "build", "var": "v3"})
    if rng.random() < 0.5:
        hist.append({"ev": "inspect", "var": "v3", "acc": ["chunks", "shape"]})
    if rng.random() < 0.3:
        hist += [{"ev": "build", "var": "v2"}, {"ev": "inspect", "var": "v2", "acc": ["chunks"]}]
    if rng.random() < 0.3:
        hist += [{"ev": "drop", "var": "v3"}, {"ev": "gc"}]
    hist.append({"ev": "config", "key": "array.unify-chunks-policy", "value": rng.choice(pol)})
    if rng.random() < 0.6:
        hist.append({"ev": "config", "key": "array.unify-chunks-limit", "value": rng.choice(lim)})
    if rng.random() < 0.4:
        hist.append({"ev": "build", "var": "v3", "force": rng.random() < 0.5})
    hist.append(dict({"ev": "compute", "var": "v3"}, **H.rand_sched(rng)))
    if rng.random() < 0.3:
        hist.append(dict({"ev": "persist", "var": "v3", "out": "p1"}, **H.rand_sched(rng)))
        hist.append(dict({"ev": "compute", "var": "p1"}, **H.rand_sched(rng)))
    return {"recipe": {"sources": srcs, "generators": {}, "steps": steps}, "targets": ["v3", "v2"], "history": hist}


def gen_tree_vs_grid(rng):
    """Structured scenario: a reduction tree sized at CONSTRUCTION (argmin/argmax) over an input whose
    optimized block grid is finer than the advertised one (native sliding-window reduction over
    one-element blocks), built and computed under several tree fan-ins (config split_every)."""
    nd = rng.choice([1, 2])
    shape = [rng.choice([5, 6, 8]) for _ in range(nd)]
    srcs = {"s0": {"shape": shape, "dtype": rng.choice(["f8", "i8", "f4"]), "offset": rng.randint(0, 20), "kind": "ndarray"}}
    ax = rng.randrange(nd)
    ch = [([1] * n if i == ax or rng.random() < 0.5 else _chunking(rng, n, "rand")) for i, n in enumerate(shape)]
    steps = [{"op": "from_array", "in": [], "args": {"src": "s0", "chunks": ch}, "out": "v0"},
             {"op": "window", "in": ["v0"], "args": {"axis": ax, "w": rng.randint(2, 3), "reduce": rng.choice(["max", "min", "sum"])},
              "out": "v1"},
             {"op": "reduction", "in": ["v1"], "args": {"f": rng.choice(["argmax", "argmin"]), "axis": rng.choice([ax, ax, None])}, "out": "v2"}]
    hist = []
    if rng.random() < 0.8:
        hist.append({"ev": "config", "key": "split_every", "value": rng.choice([2, 3])})
    hist.append({"ev": "build", "var": "v2"})
    if rng.random() < 0.4:
        hist.append({"ev": "config", "key": "split_every", "value": rng.choice([2, 3, 16])})
    if rng.random() < 0.3:
        hist.append({"ev": "config", "key": "array.optimize-graph", "value": rng.random() < 0.5})
    hist.append(dict({"ev": "compute", "var": "v2"}, **H.rand_sched(rng)))
    if rng.random() < 0.4:
        hist.append({"ev": "build", "var": "v2", "force": True})
        hist.append(dict({"ev": "compute", "var": "v2"}, **H.rand_sched(rng)))
    return {"recipe": {"sources": srcs, "generators": {}, "steps": steps}, "targets": ["v2", "v1"], "history": hist}


def gen_reduction_twins(rng):
    """Structured scenario: the same reduction of the same many-block input under two tree fan-ins, both
    collections alive in one process (name-keyed dedup must tell their tree nodes apart)."""
    nd = rng.choice([1, 2])
    # (a tree's shape only matters with enough blocks: 12-24 along the reduced axis)
    shape = [rng.choice([12, 16, 24])] + ([3] if nd == 2 else [])
    srcs = {"s0": {"shape": shape, "dtype": rng.choice(["f8", "i8"]), "offset": rng.randint(0, 9), "kind": "ndarray"}}
    steps = [{"op": "from_array", "in": [], "args": {"src": "s0", "chunks": [1] + shape[1:]}, "out": "v0"}]
    f = rng.choice(["sum", "max", "min", "any"])
    axis = 0 if nd == 2 else rng.choice([None, 0])
    ses = rng.sample([2, 3, 4, 8, None], 2)
    for i, se in enumerate(ses):
        a = {"f": f, "axis": axis}
        if se is not None:
            a["split_every"] = se
        steps.append({"op": "reduction", "in": ["v0"], "args": a, "out": f"v{i + 1}"})
    order = ["v1", "v2"]
    rng.shuffle(order)
    hist = []
    for v in order:
        hist.append({"ev": "build", "var": v})
        if rng.random() < 0.8:
            hist.append(dict({"ev": rng.choice(["compute", "compute", "graph"]), "var": v}, **H.rand_sched(rng)))
    for v in order[::-1]:
        hist.append(dict({"ev": "compute", "var": v}, **H.rand_sched(rng)))
    if rng.random() < 0.5:
        hist.append(dict({"ev": "compute_many", "vars": order}, **H.rand_sched(rng)))
    return {"scribble": rng.random() < 0.5, "recipe": {"sources": srcs, "generators": {}, "steps": steps}, "targets": ["v1", "v2"], "history": hist}


def gen(rng, tier):
    r_ = rng.random()
    if r_ > 0.97:
        return gen_reduction_twins(rng)
    if r_ < 0.12:
        return gen_layout_drift(rng)
    if r_ < 0.16:
        return gen_tree_vs_grid(rng)
    ctx = G.Ctx(rng)
    names = sorted(G.OPS)
    ctx.enabled = G.swarm_subset(rng, names, 0.75, always=("from_array", "rechunk", "binary", "reduction"))
    ctx.weights = {"random": 0.0, "rechunk": 4.0, "reduction": 4.0, "binary": 4.5, "setitem_fn": 1.2}
    ctx.p_auto_chunks = rng.choice([0.1, 0.3, 0.5])
    ctx.allow_unknown = rng.random() < 0.5
    ctx.p_fine_chunks = rng.choice([0.0, 0.0, 0.4])
    ctx.p_reduction_twin = rng.choice([0.15, 0.5])
    tree_bias = rng.random() < 0.2
    if tree_bias:
        # trees sized at construction (arg reductions) over inputs whose optimized block grid is finer
        # than the advertised one (native sliding-window reductions), under several fan-ins
        ctx.weights.update({"window": 5.0, "reduction": 6.0})
        ctx.p_arg_reduction = 0.6
        ctx.p_fine_chunks = 0.5
    recipe, targets = gen_programs(rng, ctx, tier)
    keys = sorted(H.CONFIG_DOMAIN)
    cfg_keys = [k for k in keys if rng.random() < 0.6] or keys
    if tree_bias:
        cfg_keys = ["split_every", "split_every", "split_every", "array.optimize-graph", "array.chunk-size"]
    hist = gen_history(rng, targets, cfg_keys, tier)
    return {"scribble": rng.random() < 0.5, "recipe": recipe, "targets": targets, "history": hist}


def gen_history(rng, targets, cfg_keys, tier):
    n = rng.randint(6, 22 if tier == "quick" else 30)
    built = []
    extra = []  # persisted / optimized vars
    hist = []
    counter = [0]
    p_fault = rng.choice([0.15, 0.3, 0.45])

    p_crash = rng.choice([0.0, 0.0, 0.1, 0.25])

    def crash():
        # the run dies before its k-th task (a lost worker / a cancelled compute); a later event computes again
        return {"fail_at": rng.randint(0, 8)} if rng.random() < p_crash else {}

    def fault():
        r = rng.random()
        if r < 0.6:
            return H.rand_config_event(rng, cfg_keys)
        if r < 0.7:
            return {"ev": "gc"}
        if r < 0.85:
            return {"ev": "evict", "what": rng.choice(["lower", "lower", "singleton"])}
        if r < 0.97 and built:
            return {"ev": "drop", "var": rng.choice(built)}
        return {"ev": "config_refresh"}

    while len(hist) < n:
        unbuilt = [t for t in targets if t not in built]
        live = built + extra
        r = rng.random()
        if rng.random() < p_fault:
            ev = fault()
            if ev["ev"] == "drop":
                built.remove(ev["var"])
            hist.append(ev)
            continue
        if unbuilt and (not built or r < 0.25):
            v = rng.choice(unbuilt)
            built.append(v)
            hist.append({"ev": "build", "var": v})
        elif not live:
            continue
        elif r < 0.35:
            hist.append({"ev": "inspect", "var": rng.choice(live), "acc": rng.sample(H.ACCESSORS, rng.randint(1, 4))})
        elif r < 0.45:
            hist.append({"ev": "graph", "var": rng.choice(live)})
        elif r < 0.52:
            counter[0] += 1
            v = rng.choice(live)
            o = f"o{counter[0]}"
            hist.append({"ev": "optimize", "var": v, "out": o})
            extra.append(o)
        elif r < 0.56:
            hist.append({"ev": "simplify", "var": rng.choice(live)})
        elif r < 0.64:
            counter[0] += 1
            v = rng.choice(live)
            o = f"p{counter[0]}"
            hist.append(dict({"ev": "persist", "var": v, "out": o}, **H.rand_sched(rng), **crash()))
            extra.append(o)
        elif r < 0.68 and built:
            hist.append({"ev": "build", "var": rng.choice(built), "force": True})
        elif r < 0.76 and len(live) >= 2:
            hist.append(dict({"ev": "compute_many", "vars": rng.sample(live, rng.randint(2, min(3, len(live))))},
                             **H.rand_sched(rng), **crash()))
        else:
            hist.append(dict({"ev": "compute", "var": rng.choice(live)}, **H.rand_sched(rng), **crash()))
    for v in built:
        hist.append(dict({"ev": "compute", "var": v}, **H.rand_sched(rng)))
    return hist


def shape_of(case, stats):
    return [[(s["op"]) for s in case["recipe"]["steps"]], [(e["ev"], e.get("key"), e.get("value")) for e in case["history"]]]


def nontrivial(case, stats):
    return stats.get("faults_between_materializations", 0) >= 1 and stats.get("checked_computes", 0) >= 2


def execute(case, stats, log):
    m = H.Machine(case, stats, log, ID)
    m.pristine_phase(case["targets"], probe_kinds=True)
    for v in case["targets"]:
        p = m.pristine[v]
        log.append(["pristine", v, m.nm(p.get("name")), fp(p.get("value")) if p["error"] is None else p["error"][:60]])
    if all(m.pristine[v]["error"] for v in case["targets"]):
        raise Invalid("no target computes in the pristine phase")
    run_history(m, case, stats, log)


def run_history(m, case, stats, log, check=None):
    seen_mat = False
    pending_fault = 0
    for i, ev in enumerate(case["history"]):
        var = ev.get("var")
        if var is not None and ev["ev"] not in ("build",) and var not in m.pool:
            continue  # shrunk histories may reference vars that no longer exist
        if ev["ev"] == "compute_many":
            _compute_many(m, i, ev, stats, log)
            if pending_fault:
                stats["faults_between_materializations"] = stats.get("faults_between_materializations", 0) + pending_fault
                pending_fault = 0
            seen_mat = True
            continue
        org = m.origin.get(var) if var else None
        if ev["ev"] == "build":
            org = var
        pr = m.pristine.get(org) if org else None
        usable = pr is not None and pr["error"] is None
        if ev["ev"] in FAULTS:
            if seen_mat:
                pending_fault += 1
        try:
            out = m.apply(ev)
        except Violation:
            raise
        except G.fakes.InjectedIOError:
            raise
        except G.fakes.InjectedTaskFailure:
            # injected crash in the middle of this run: nothing is returned; what must hold is that every
            # LATER materialisation is unaffected (no half-built state left in the collection's or the
            # process-wide caches)
            seen_mat = True
            pending_fault += 1
            log.append([i, ev["ev"], var, "crashed"])
            continue
        except Exception as e:  # noqa: BLE001
            if ev["ev"] == "build":
                # construction under a flipped config failed: the statement is about computed
                # values, so this run cannot be judged; recorded, not reported
                stats["unclaimed.build_raised"] = stats.get("unclaimed.build_raised", 0) + 1
                raise Invalid(f"build of {var} raised {type(e).__name__}: {str(e)[:200]}")
            if usable and ev["ev"] not in (m.pristine[m.origin.get(var)].get("kinds_ok") or MATERIALIZE + ("inspect", "simplify")):
                # the same operation raises on the same program with no history and default configuration:
                # not a matter of history or configuration (an entry-point matter, C05/C08)
                stats["unclaimed.raises_without_history"] = stats.get("unclaimed.raises_without_history", 0) + 1
                log.append([i, ev["ev"], var, "raises-also-pristine"])
                continue
            if ev["ev"] in MATERIALIZE and usable:
                raise Violation(ID, "raises-under-history",
                                f"event {i} {ev['ev']}({var}) raised {type(e).__name__}: {str(e)[:300]} but the same "
                                f"program computes in a pristine process", step=i)
            if ev["ev"] in ("inspect", "simplify") and usable:
                raise Violation(ID, "raises-under-history",
                                f"event {i} {ev['ev']}({var}) raised {type(e).__name__}: {str(e)[:300]}", step=i)
            log.append([i, ev["ev"], var, "raised-ignored"])
            continue
        if ev["ev"] in MATERIALIZE:
            if pending_fault:
                stats["faults_between_materializations"] = stats.get("faults_between_materializations", 0) + pending_fault
                pending_fault = 0
            seen_mat = True
        if ev["ev"] == "compute":
            val = out["value"]
            if usable:
                r = same_value(val, pr["value"])
                stats["checked_computes"] = stats.get("checked_computes", 0) + 1
                if r:
                    cfg = dict(m.config_history)
                    raise Violation(ID, "value-depends-on-history",
                                    f"event {i}: compute({var}) [program {org}] differs from the pristine value of the same "
                                    f"program: {r}; config flips so far: {cfg}", step=i, info={"program": org})
            log.append([i, "compute", var, fp(val)])
        elif ev["ev"] == "build":
            x = out["x"]
            log.append([i, "build", var, m.nm(x.name), chunks_json(x.chunks)])
        elif ev["ev"] == "inspect":
            log.append([i, "inspect", var, out["seen"]])
        else:
            log.append([i, ev["ev"], var, ev.get("key"), str(ev.get("value"))])
        if check:
            check(m, i, ev, out)


def _compute_many(m, i, ev, stats, log):
    vs = [v for v in ev["vars"] if v in m.pool]
    if len(vs) < 1:
        return
    usable = {v: (m.pristine.get(m.origin.get(v)) or {"error": "x"}) for v in vs}
    try:
        out = m.apply(dict(ev, vars=vs))
    except Violation:
        raise
    except G.fakes.InjectedTaskFailure:
        log.append([i, "compute_many", vs, "crashed"])
        return
    except Exception as e:  # noqa: BLE001
        if all(u["error"] is None for u in usable.values()):
            raise Violation(ID, "raises-under-history",
                            f"event {i} dask.compute({vs}) raised {type(e).__name__}: {str(e)[:300]} but each program "
                            f"computes alone in a pristine process", step=i)
        log.append([i, "compute_many", vs, "raised-ignored"])
        return
    for v, val in zip(out["vars"], out["values"]):
        u = usable[v]
        if u["error"] is None:
            stats["checked_computes"] = stats.get("checked_computes", 0) + 1
            r = same_value(val, u["value"])
            if r:
                raise Violation(ID, "value-depends-on-history",
                                f"event {i}: dask.compute({vs}) result for {v} [program {m.origin.get(v)}] differs from the "
                                f"pristine value: {r}; config flips so far: {dict(m.config_history)}", step=i,
                                info={"program": m.origin.get(v)})
        log.append([i, "compute_many", v, fp(val)])


def candidates(case):
    hist = case["history"]
    # drop history events (largest chunks first)
    n = len(hist)
    size = n // 2
    while size >= 1:
        for start in range(0, n, size):
            c = dict(case)
            c["history"] = hist[:start] + hist[start + size:]
            if c["history"]:
                yield c
        size //= 2
    # fewer targets
    for t in case["targets"]:
        if len(case["targets"]) > 1:
            c = dict(case)
            c["targets"] = [x for x in case["targets"] if x != t]
            c["history"] = [e for e in hist if e.get("var") != t]
            yield c
    # drop program steps
    rec = case["recipe"]
    for i in reversed(range(len(rec["steps"]))):
        r = G.drop_step(rec, i)
        if r is None:
            continue
        new, dead, (victim, repl) = r
        ren = {victim: repl}
        tg = []
        for t in case["targets"]:
            t = ren.get(t, t)
            if t is None or t in dead or t in tg:
                continue
            tg.append(t)
        if not tg:
            continue
        h2 = []
        for e in hist:
            v = e.get("var")
            if v is not None:
                v2 = ren.get(v, v)
                if v2 is None or v2 in dead:
                    continue
                e = dict(e, var=v2)
            if "vars" in e:
                vv = [ren.get(x, x) for x in e["vars"]]
                vv = [x for x in vv if x is not None and x not in dead]
                if not vv:
                    continue
                e = dict(e, vars=vv)
            h2.append(e)
        c = dict(case)
        c["recipe"] = new
        c["targets"] = tg
        c["history"] = h2
        yield c
    # simplify schedules
    for i, e in enumerate(hist):
        if e.get("policy") not in (None, "fifo") or e.get("release"):
            c = dict(case)
            c["history"] = list(hist)
            c["history"][i] = dict(e, policy="fifo", release=False)
            yield c


def _pre_f19(case, result):
    if not H.pre_unify_flip(case, result):
        return False
    # Census (tools/f19_census.py, 4000 structured cases on the tree the finding was recorded for): when
    # the only consumers between the differently-chunked elementwise nodes and the violating program are
    # native sliding-window reductions, F19 shows as a loud error ("adjust_chunks specified with N
    # blocks"), never as a wrong value -- the reduction re-splits its input at lowering.  A WRONG VALUE
    # in that family is therefore not F19 and is reported.
    if result.get("cls") == "value-depends-on-history":
        prog = (result.get("info") or {}).get("program")
        rec = case["recipe"]
        if prog is not None and any(s_["out"] == prog for s_ in rec["steps"]):
            kinds = {(s_["op"], "reduce" in s_["args"]) for i_ in G.needed_steps(rec, prog) for s_ in [rec["steps"][i_]]
                     if s_["op"] not in ("from_array", "creation", "binary", "unary")}
            if kinds and kinds <= {("window", True)}:
                return False
    return True


FINDING_ABLATIONS = {
    "F19": (_pre_f19, H.abl_unify_flip),
    "F20": (H.pre_userfn, H.ablate_userfns),
    "F28": (H.pre_masked_unoptimized, H.abl_unmask),
}
