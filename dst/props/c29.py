"""C29 — building and inspecting arrays never touches data (histsim + fakes)."""

from __future__ import annotations

import numpy as np

from .. import fakes
from .. import gen as G
from .. import histsim as H
from ..common import Invalid, Violation, fp
from . import c09

ID = "C29"


def gen(rng, tier):
    ctx = G.Ctx(rng)
    names = sorted(G.OPS)
    ctx.enabled = G.swarm_subset(rng, names, 0.75, always=("from_array", "getitem", "rechunk", "map_blocks", "userfn"))
    ctx.enabled.discard("random")
    ctx.enabled.discard("creation") if rng.random() < 0.7 else None
    ctx.weights = {"from_array": 4.0, "map_blocks": 3.0, "map_overlap": 2.0, "userfn": 2.5, "getitem": 4.0, "rechunk": 3.5,
                   "reduction": 2.0, "binary": 3.0}
    ctx.p_simsource = 1.0
    ctx.p_asarray_false = rng.choice([0.0, 0.3, 0.6])
    if rng.random() < 0.4:
        ctx.enabled.add("raw_operand")
        ctx.weights["raw_operand"] = 2.5
    ctx.p_masked = 0.0
    ctx.p_untokenizable = rng.choice([0.0, 0.2])
    ctx.rec_fns = True
    ctx.p_auto_chunks = 0.3
    recipe = G.gen_program(ctx, rng.randint(3, 10), n_leaves=rng.randint(1, 3))
    outs = [s["out"] for s in recipe["steps"]]
    targets = []
    for _ in range(6):
        t = G.pick_target(ctx, rng, 0.6)
        if t not in targets:
            targets.append(t)
        if len(targets) >= 3:
            break
    hist = []
    built, extra = [], []
    k = [0]
    n = rng.randint(8, 30 if tier == "quick" else 45)
    while len(hist) < n:
        unbuilt = [t for t in targets if t not in built]
        live = built + extra
        r = rng.random()
        if unbuilt and (not live or r < 0.15):
            t = rng.choice(unbuilt)
            built.append(t)
            hist.append({"ev": "build", "var": t})
        elif not live:
            continue
        elif r < 0.5:
            hist.append({"ev": "inspect", "var": rng.choice(live), "acc": rng.sample(H.ACCESSORS, rng.randint(1, 5))})
        elif r < 0.58:
            hist.append({"ev": "simplify", "var": rng.choice(live)})
        elif r < 0.68:
            k[0] += 1
            o = f"o{k[0]}"
            hist.append({"ev": "optimize", "var": rng.choice(live), "out": o})
            extra.append(o)
        elif r < 0.76:
            hist.append({"ev": "graph", "var": rng.choice(live)})
        elif r < 0.82:
            k[0] += 1
            o = f"u{k[0]}"
            hist.append({"ev": "pickle", "var": rng.choice(live), "out": o})
            extra.append(o)
        elif r < 0.86:
            k[0] += 1
            o = f"f{k[0]}"
            hist.append({"ev": "freeze", "var": rng.choice(live), "out": o})
            extra.append(o)
        elif r < 0.9:
            hist.append(H.rand_config_event(rng, ["array.chunk-size", "array.optimize-graph", "array.unify-chunks-policy"]))
        elif r < 0.94:
            hist.append({"ev": "gc"})
        elif r < 0.97:
            hist.append({"ev": "evict", "what": rng.choice(["lower", "singleton"])})
        elif built:
            v = rng.choice(built)
            built.remove(v)
            hist.append({"ev": "drop", "var": v})
    for v in (built + extra)[:2]:
        hist.append(dict({"ev": "compute", "var": v}, **H.rand_sched(rng)))
    return {"recipe": recipe, "targets": targets, "history": hist}


def shape_of(case, stats):
    return [[s["op"] for s in case["recipe"]["steps"]], [(e["ev"], tuple(e.get("acc", ()))) for e in case["history"]]]


def nontrivial(case, stats):
    return stats.get("inspect_steps", 0) >= 3 and stats.get("reads_in_execute", 0) >= 1


def _nonempty_meta_nodes(pool):
    out = []
    seen = set()
    for v in sorted(pool):
        x = pool[v]
        roots = [x.expr]
        lo = x.__dict__.get("_lowered_expr")
        if lo is not None:
            roots.append(lo)
        for r in roots:
            for node in r.walk():
                if node._name in seen:
                    continue
                seen.add(node._name)
                try:
                    meta = node._meta
                except Exception:  # noqa: BLE001
                    continue
                if getattr(meta, "size", 0):
                    out.append(type(node).__name__)
    return sorted(set(out))


def check_logs(i, ev, pool=None):
    for s in fakes.ALL_SOURCES:
        bad = s.nonempty_outside_execute()
        if bad:
            r = bad[0]
            raise Violation(ID, "data-read-outside-execute",
                            f"event {i} {ev['ev']}({ev.get('var')}, {ev.get('acc', '')}): source {s.name} was asked for a "
                            f"non-empty selection {r[2]} (result shape {r[3]}) during phase '{r[0]}', before any graph executed",
                            step=i)
    for f in fakes.ALL_FNS:
        bad = f.nonempty_outside_execute()
        if bad:
            r = bad[0]
            site = " <- ".join(reversed(f.stacks[0][-6:])) if f.stacks else "?"
            info = {
                "fn": f.name,
                "shapes": [list(s_) for rr in bad for s_ in rr[1]],
                "stacks": f.stacks[:4],
                "nonempty_meta_nodes": _nonempty_meta_nodes(pool) if pool else [],
            }
            raise Violation(ID, "user-function-called-outside-execute",
                            f"event {i} {ev['ev']}({ev.get('var')}, {ev.get('acc', '')}): user block function {f.name} was "
                            f"called on non-empty block(s) of shape {r[1]} during phase '{r[0]}' [call site: {site}]", step=i,
                            info=info)


def execute(case, stats, log):
    m = H.Machine(case, stats, log, ID)
    for i, ev in enumerate(case["history"]):
        var = ev.get("var")
        if var is not None and ev["ev"] != "build" and var not in m.pool:
            continue
        if ev["ev"] == "freeze":
            fakes.set_phase("inspect")
            try:
                m.pool[ev["out"]] = m.pool[var].freeze_chunks()
                m.origin[ev["out"]] = m.origin.get(var)
            except Violation:
                raise
            except Exception:  # noqa: BLE001 -- metadata that cannot be read (F19 territory) is not this check's matter
                stats["unclaimed.raised"] = stats.get("unclaimed.raised", 0) + 1
            finally:
                fakes.set_phase("build")
            check_logs(i, ev, m.pool)
            continue
        try:
            out = m.apply(ev)
        except Violation:
            raise
        except Exception as e:  # noqa: BLE001
            fakes.set_phase("build")
            if ev["ev"] == "build":
                raise Invalid(f"build raised {type(e).__name__}: {str(e)[:200]}")
            # failures of an accessor are not this property's matter; touching data is
            stats["unclaimed.raised"] = stats.get("unclaimed.raised", 0) + 1
            check_logs(i, ev, m.pool)
            continue
        if ev["ev"] != "compute":
            stats["inspect_steps"] = stats.get("inspect_steps", 0) + 1
            check_logs(i, ev, m.pool)
            log.append([i, ev["ev"], var, out.get("seen") if ev["ev"] == "inspect" else None])
        else:
            n = sum(1 for s in fakes.ALL_SOURCES for r in s.log if r[0] == "execute")
            n += sum(1 for f in fakes.ALL_FNS for r in f.log if r[0] == "execute")
            stats["reads_in_execute"] = stats.get("reads_in_execute", 0) + n
            check_logs(i, ev, m.pool)
            log.append([i, "compute", var, fp(out["value"])])
    stats["probe.meta_probes"] = sum(1 for s in fakes.ALL_SOURCES for r in s.log if r[0] != "execute")
    stats["probe.fn_meta_calls"] = sum(1 for f in fakes.ALL_FNS for r in f.log if r[0] != "execute")


candidates = c09.candidates
