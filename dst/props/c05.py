"""C05 — every compute/persist/optimize entry point agrees (histsim)."""

from __future__ import annotations

import itertools

import numpy as np

from .. import gen as G
from .. import histsim as H
from ..common import Invalid, Violation, chunks_eq, chunks_json, fp, same_value
from . import c09

ID = "C05"

ENTRY_EVENTS = ["compute:method", "compute:dask1", "compute_many", "persist:method", "persist:dask", "doptimize",
                "optimize", "compute:delayed"]


FOLLOW_OPS = ["slice_step", "slice_step3", "slice_last", "add1", "sum", "rechunk1", "T", "max0"]


def _follow(op, a):
    if op == "slice_step":
        return a[::2] if a.ndim else a + 0
    if op == "slice_step3":
        return a[..., ::3] if a.ndim else a + 0
    if op == "slice_last":
        return a[-1:] if a.ndim else a + 0
    if op == "add1":
        return a + 1
    if op == "sum":
        return a.sum()
    if op == "rechunk1":
        return a.rechunk(1) if a.ndim else a + 0
    if op == "T":
        return a.T
    if op == "max0":
        return a.max(axis=0) if a.ndim else a + 0
    raise AssertionError(op)


def gen_reduction_entry(rng):
    """Structured scenario: a (possibly masked, possibly empty) source -> elementwise steps -> a reduction
    (to a scalar or along axis 0) -> elementwise steps; persist / optimize through both drivers; then the
    returned collections are computed, sliced, added to and persisted again.  persist/optimize read metadata
    (meta, dtype, keys of reduction intermediates) that a plain compute never needs."""
    nd = rng.choice([1, 1, 2])
    shape = [rng.choice([0, 3, 5, 6, 8]) if rng.random() < 0.15 else rng.choice([3, 5, 6, 8]) for _ in range(nd)]
    spec = {"shape": shape, "dtype": rng.choice(["f8", "i4", "f4", "u1", "b1", "i8"]), "offset": rng.randint(0, 20), "kind": "ndarray"}
    if rng.random() < 0.6:
        spec["masked"] = True
    steps = [{"op": "from_array", "in": [], "args": {"src": "s0", "chunks": [rng.choice([1, 2, 3, 5])] + [rng.choice([2, 3, 8])] * (nd - 1)},
              "out": "v0"}]

    def unary(inp):
        f = rng.choice(["neg", "abs", "addc", "mulc", "sqrtabs", "square", "round", "conj_real", "astype", "positive"])
        a = {"f": f}
        if f in ("addc", "mulc"):
            a["c"] = rng.choice([1, 2, 0.5])
        if f == "astype":
            a["dtype"] = rng.choice(["f8", "f4", "i8"])
        steps.append({"op": "unary", "in": [inp], "args": a, "out": f"v{len(steps)}"})
        return steps[-1]["out"]

    cur = "v0"
    for _ in range(rng.randint(0, 2)):
        cur = unary(cur)
    red = {"f": rng.choice(["mean", "var", "std", "sum", "prod", "all", "any", "argmin", "argmax", "nansum", "max", "nanmax"])}
    red["axis"] = rng.choice([None, None, 0]) if red["f"] not in ("argmin", "argmax") else rng.choice([None, 0])
    if rng.random() < 0.3:
        red["split_every"] = 2
    steps.append({"op": "reduction", "in": [cur], "args": red, "out": f"v{len(steps)}"})
    cur = steps[-1]["out"]
    for _ in range(rng.randint(0, 2)):
        cur = unary(cur)
    if rng.random() < 0.3:
        steps.append({"op": "binary", "in": [cur, cur], "args": {"f": "add"}, "out": f"v{len(steps)}"})
        cur = steps[-1]["out"]
    if rng.random() < 0.35:
        # a second reduction over the (possibly meta-less) elementwise result of the first
        steps.append({"op": "reduction", "in": [cur], "args": {"f": rng.choice(["argmin", "argmax", "sum", "max"])}, "out": f"v{len(steps)}"})
        cur = steps[-1]["out"]
    x = cur
    hist = [{"ev": "build", "var": x}]
    returned, k = [], 0
    for _ in range(rng.randint(1, 4)):
        k += 1
        e = rng.choice(["persist:method", "persist:dask", "optimize", "doptimize", "compute:method", "compute:dask1", "compute:delayed"])
        subj = x if not returned or rng.random() < 0.6 else rng.choice(returned)
        if e.startswith("compute:"):
            hist.append(dict({"ev": "compute", "var": subj, "entry": e.split(":")[1]}, **H.rand_sched(rng)))
        elif e.startswith("persist:"):
            hist.append(dict({"ev": "persist", "var": subj, "entry": e.split(":")[1], "out": f"p{k}"}, **H.rand_sched(rng)))
            returned.append(f"p{k}")
        elif e == "doptimize":
            hist.append({"ev": "doptimize", "var": subj, "out": f"d{k}"})
            returned.append(f"d{k}")
        else:
            hist.append({"ev": "optimize", "var": subj, "out": f"o{k}"})
            returned.append(f"o{k}")
    for r_ in returned:
        hist.append(dict({"ev": "compute", "var": r_, "entry": rng.choice(["method", "dask1"])}, **H.rand_sched(rng)))
        for _ in range(rng.randint(0, 2)):
            hist.append(dict({"ev": "followon", "var": r_, "base": x, "op": rng.choice(FOLLOW_OPS)}, **H.rand_sched(rng)))
    recipe = {"sources": {"s0": spec}, "generators": {}, "steps": steps}
    return {"scribble": rng.random() < 0.5, "recipe": recipe, "x": x, "targets": [x], "history": hist}


def gen_nested_window(rng):
    """Structured scenario: a native sliding-window reduction x whose consumer is ANOTHER sliding-window
    reduction (planned on x's advertised chunks); the consumer is applied to x, to x.persist() (blocks follow
    the advertised chunks) and to x.optimize()."""
    shape = [rng.choice([5, 6, 8]), rng.choice([5, 6, 8])]
    srcs = {"s0": {"shape": shape, "dtype": rng.choice(["f8", "i8"]), "offset": rng.randint(0, 9), "kind": "ndarray"}}
    steps = [{"op": "from_array", "in": [], "args": {"src": "s0", "chunks": rng.choice([list(shape), [-1, -1], [rng.choice([2, 3, 5]), rng.choice([2, 3, 5])]])},
              "out": "v0"},
             {"op": "window", "in": ["v0"], "args": {"axis": 0, "w": rng.randint(2, 4), "reduce": rng.choice(["max", "min", "sum"])}, "out": "v1"},
             {"op": "window", "in": ["v1"], "args": {"axis": rng.choice([0, 1]), "w": rng.randint(2, 3), "reduce": rng.choice(["sum", "max"])}, "out": "v2"}]
    x, cons = "v1", "v2"
    if rng.random() < 0.5:
        # x is the NESTED reduction (optimized grid finer than the advertised one); its consumer is a tree
        # reduction with a small fan-in, planned on x's advertised chunks
        steps.append({"op": "reduction", "in": ["v2"], "args": {"f": rng.choice(["min", "max", "sum"]), "axis": rng.choice([0, 1]),
                                                              "split_every": rng.choice([2, 3])}, "out": "v3"})
        x, cons = "v2", "v3"
    hist = [{"ev": "build", "var": x}]
    returned, k = [], 0
    for e in rng.sample(["persist:method", "optimize", "persist:dask", "doptimize"], rng.randint(1, 3)):
        k += 1
        if e.startswith("persist:"):
            hist.append(dict({"ev": "persist", "var": x, "entry": e.split(":")[1], "out": f"p{k}"}, **H.rand_sched(rng)))
            returned.append(f"p{k}")
        elif e == "optimize":
            hist.append({"ev": "optimize", "var": x, "out": f"o{k}"})
            returned.append(f"o{k}")
        else:
            hist.append({"ev": "doptimize", "var": x, "out": f"d{k}"})
            returned.append(f"d{k}")
    for s_ in [x] + returned:
        k += 1
        hist.append({"ev": "derive", "as": cons, "subst": {x: s_}, "out": f"f{k}"})
        hist.append(dict({"ev": "compute", "var": f"f{k}", "entry": "method"}, **H.rand_sched(rng)))
    return {"scribble": False, "recipe": {"sources": srcs, "generators": {}, "steps": steps}, "x": x, "targets": [x, cons], "history": hist}


def gen(rng, tier):
    r0 = rng.random()
    if r0 < 0.14:
        return gen_reduction_entry(rng)
    if r0 < 0.17:
        return gen_nested_window(rng)
    ctx = G.Ctx(rng)
    names = sorted(G.OPS)
    ctx.enabled = G.swarm_subset(rng, names, 0.75, always=("from_array", "rechunk", "binary", "reduction"))
    ctx.weights = {"random": 0.0, "reduction": 4.5, "window": 2.0, "rechunk": 3.0, "cumulative": 1.5}
    if rng.random() < 0.08:
        ctx.weights["window"] = 10.0  # chains of sliding-window reductions (F21)
    ctx.allow_unknown = rng.random() < 0.4
    if rng.random() < 0.15:
        # nodes whose meta cannot be computed (masked inputs) under reductions whose tree/meta is fixed at
        # construction: persist/optimize read metadata that compute never needs
        ctx.p_masked = 0.8
        ctx.p_arg_reduction = 0.3
        ctx.weights.update({"reduction": 8.0, "unary": 4.0, "window": 0.5})
    n = rng.randint(3, 10)
    recipe = G.gen_program(ctx, n, n_leaves=rng.randint(1, 2))
    steps = recipe["steps"]
    consumers = {}
    for s in steps:
        o = G.OPS[s["op"]]
        for v in s["in"][: o.arity]:
            consumers.setdefault(v, []).append(s["out"])
    outs = [s["out"] for s in steps if G.OPS[s["op"]].arity > 0] or [s["out"] for s in steps]
    with_cons = [v for v in outs if v in consumers]
    x = rng.choice(with_cons) if with_cons and rng.random() < 0.75 else G.pick_target(ctx, rng)
    follow = consumers.get(x, [])[:3]
    companions = [v for v in [s["out"] for s in steps] if v != x and v not in follow]
    rng.shuffle(companions)
    companions = companions[: rng.randint(0, 2)]
    hist = [{"ev": "build", "var": x}]
    for c in companions:
        hist.append({"ev": "build", "var": c})
    returned = []  # collections returned by entry points
    k = 0
    n_entry = rng.randint(2, 6)
    p_fault = rng.choice([0.0, 0.2, 0.4])
    p_crash = rng.choice([0.0, 0.0, 0.15])
    for _ in range(n_entry):
        if rng.random() < p_fault:
            r = rng.random()
            if r < 0.35:
                hist.append({"ev": "config", "key": "array.optimize-graph", "value": rng.random() < 0.5})
            elif r < 0.55:
                hist.append({"ev": "gc"})
            elif r < 0.8:
                hist.append({"ev": "evict", "what": rng.choice(["lower", "singleton"])})
            elif companions:
                hist.append({"ev": "drop", "var": rng.choice(companions)})
        subj = x if not returned or rng.random() < 0.7 else rng.choice(returned)
        e = rng.choice(ENTRY_EVENTS)
        sched = H.rand_sched(rng)
        if rng.random() < p_crash and e.startswith("compute:"):
            sched["fail_at"] = rng.randint(0, 8)  # this run dies before its k-th task; asked again later
        k += 1
        if e.startswith("compute:"):
            hist.append(dict({"ev": "compute", "var": subj, "entry": e.split(":")[1]}, **sched))
        elif e == "compute_many":
            others = [c for c in companions + returned if c != subj]
            vs = [subj] + (rng.sample(others, min(len(others), rng.randint(1, 2))) if others else [])
            rng.shuffle(vs)
            hist.append(dict({"ev": "compute_many", "vars": vs}, **sched))
        elif e.startswith("persist:"):
            o = f"p{k}"
            hist.append(dict({"ev": "persist", "var": subj, "entry": e.split(":")[1], "out": o}, **sched))
            returned.append(o)
        elif e == "doptimize":
            o = f"d{k}"
            hist.append({"ev": "doptimize", "var": subj, "out": o})
            returned.append(o)
        elif e == "optimize":
            o = f"o{k}"
            hist.append({"ev": "optimize", "var": subj, "out": o})
            returned.append(o)
    # every returned collection is computed, then follow-ons are applied to it and to x
    for r_ in returned:
        hist.append(dict({"ev": "compute", "var": r_, "entry": rng.choice(["method", "dask1"])}, **H.rand_sched(rng)))
    # generic follow-ons (independent of what the recipe happens to apply to x): the same small operation on
    # a returned collection and on x itself must compute the same
    for r_ in returned[:3]:
        if rng.random() < 0.5:
            hist.append(dict({"ev": "followon", "var": r_, "base": x, "op": rng.choice(FOLLOW_OPS)}, **H.rand_sched(rng)))
    for f in follow:
        subs = [x] + returned
        rng.shuffle(subs)
        for s_ in subs[:3]:
            k += 1
            o = f"f{k}"
            hist.append({"ev": "derive", "as": f, "subst": {x: s_}, "out": o})
            hist.append(dict({"ev": "compute", "var": o, "entry": "method"}, **H.rand_sched(rng)))
            if rng.random() < 0.3:
                k += 1
                hist.append(dict({"ev": "persist", "var": o, "entry": rng.choice(["method", "dask"]), "out": f"p{k}"},
                                 **H.rand_sched(rng)))
                hist.append(dict({"ev": "compute", "var": f"p{k}", "entry": "method"}, **H.rand_sched(rng)))
    # in-place tail: x is modified in place AFTER its keys / lowered graph / delayed blocks have been
    # read (every memo on the collection is warm), then every entry point is asked again; the
    # reference from here on is x.compute() of the modified x (the statement's own anchor)
    X = ctx.env.vars[x]
    from . import c11

    if rng.random() < 0.35 and c11.assignable(X):

        for _ in range(rng.randint(1, 3)):
            w = rng.random()
            if w < 0.3:
                hist.append({"ev": "inspect", "var": x, "acc": ["keys"] + rng.sample(H.ACCESSORS, 1)})
            elif w < 0.55:
                hist.append(dict({"ev": "compute", "var": x, "entry": "delayed"}, **H.rand_sched(rng)))
            elif w < 0.75:
                hist.append(dict({"ev": "compute", "var": x, "entry": rng.choice(["method", "dask1"])}, **H.rand_sched(rng)))
            elif w < 0.9:
                hist.append({"ev": "graph", "var": x})
            else:
                k += 1
                hist.append(dict({"ev": "persist", "var": x, "entry": "method", "out": f"p{k}"}, **H.rand_sched(rng)))
        ev_ = c11.gen_inplace_event(rng, recipe, x, X, ID)
        if ev_ is not None:
            hist.append(ev_)
        tail = ["compute:delayed", "compute:dask1", "compute_many", "persist:method", "persist:dask", "doptimize", "optimize",
                "compute:delayed", "inspect-keys"]
        after = []
        for e in rng.sample(tail, rng.randint(2, 5)):
            sched = H.rand_sched(rng)
            k += 1
            if e.startswith("compute:"):
                hist.append(dict({"ev": "compute", "var": x, "entry": e.split(":")[1]}, **sched))
            elif e == "compute_many":
                vs = [x] + companions[:1]
                rng.shuffle(vs)
                hist.append(dict({"ev": "compute_many", "vars": vs}, **sched))
            elif e.startswith("persist:"):
                hist.append(dict({"ev": "persist", "var": x, "entry": e.split(":")[1], "out": f"p{k}"}, **sched))
                after.append(f"p{k}")
            elif e == "doptimize":
                hist.append({"ev": "doptimize", "var": x, "out": f"d{k}"})
                after.append(f"d{k}")
            elif e == "optimize":
                hist.append({"ev": "optimize", "var": x, "out": f"o{k}"})
                after.append(f"o{k}")
            else:
                hist.append({"ev": "inspect", "var": x, "acc": ["keys", "name", "chunks"]})
        for r_ in after:
            hist.append(dict({"ev": "compute", "var": r_, "entry": rng.choice(["method", "dask1", "delayed"])}, **H.rand_sched(rng)))
    return {"scribble": rng.random() < 0.5, "recipe": recipe, "x": x, "targets": [x] + companions + follow, "history": hist}


def shape_of(case, stats):
    return [[s["op"] for s in case["recipe"]["steps"]], [(e["ev"], e.get("entry")) for e in case["history"]]]


def nontrivial(case, stats):
    return stats.get("entry_kinds", 0) >= 2 and stats.get("checked", 0) >= 2


def _assemble(x_chunks, shape, blocks, ref):
    """Compare to_delayed blocks against the reference value, block by block."""
    if any(c != c for dim in x_chunks for c in dim):
        return None
    bounds = [np.cumsum((0,) + tuple(dim)) for dim in x_chunks]
    idxs = list(itertools.product(*[range(len(dim)) for dim in x_chunks]))
    if len(idxs) != len(blocks):
        return f"to_delayed gave {len(blocks)} blocks for {len(idxs)} advertised"
    for idx, b in zip(idxs, blocks):
        sl = tuple(slice(int(bounds[d][i]), int(bounds[d][i + 1])) for d, i in enumerate(idx))
        want = np.asanyarray(ref)[sl] if np.ndim(ref) else np.asanyarray(ref)
        got = np.asanyarray(b)
        if isinstance(want, np.ma.MaskedArray) != isinstance(got, np.ma.MaskedArray):
            # a block may be a plain ndarray while the concatenated result is masked (and vice versa)
            want, got = np.ma.asarray(want), np.ma.asarray(got)
        if got.dtype != want.dtype and got.shape == want.shape and np.can_cast(got.dtype, want.dtype, "same_kind"):
            # a block may be narrower than the assembled result (concatenate/stack promote when they
            # assemble): the statement is about values
            got = got.astype(want.dtype)
        r = same_value(got, want)
        if r:
            return f"block {idx}: {r}"
    return None


def execute(case, stats, log):
    m = H.Machine(case, stats, log, ID)
    m.pristine_phase(case["targets"])
    x = case["x"]
    if m.pristine[x]["error"]:
        raise Invalid(f"x does not compute pristine: {m.pristine[x]['error']}")
    kinds = set()
    first = {}
    for i, ev in enumerate(case["history"]):
        var = ev.get("var")
        if ev["ev"] == "compute_many":
            vs = [v for v in ev["vars"] if v in m.pool]
            if not vs:
                continue
            ev = dict(ev, vars=vs)
        elif ev["ev"] == "derive":
            if any(s not in m.pool for s in ev.get("subst", {}).values()) or ev["as"] not in m.by_out:
                continue
            if any(v not in m.pool and v not in ev.get("subst", {}) for v in m.by_out[ev["as"]]["in"][: G.OPS[m.by_out[ev["as"]]["op"]].arity]):
                # other inputs of the follow-on must be live
                try:
                    for v in m.by_out[ev["as"]]["in"]:
                        if v not in ev.get("subst", {}) and v not in m.pool:
                            m.build(v)
                except Exception as e:  # noqa: BLE001
                    raise Invalid(f"follow-on input build failed: {e}")
        elif var is not None and ev["ev"] != "build" and var not in m.pool:
            continue
        if ev["ev"] == "followon":
            if ev["base"] not in m.pool or m.origin.get(var) != m.origin.get(ev["base"]):
                continue
            import warnings as _w

            with _w.catch_warnings():
                _w.simplefilter("ignore")
                try:
                    want = m.compute(_follow(ev["op"], m.pool[ev["base"]]), ev)
                except Violation:
                    raise
                except Exception:  # noqa: BLE001 -- the operation does not apply to x itself: nothing to compare
                    continue
                try:
                    got = m.compute(_follow(ev["op"], m.pool[var]), ev)
                except Violation:
                    raise
                except Exception as e:  # noqa: BLE001
                    raise Violation(ID, "follow-on-raises",
                                    f"event {i}: {ev['op']} applied to {var} (returned by an entry point of {ev['base']}) raised "
                                    f"{type(e).__name__}: {str(e)[:300]} while the same operation on {ev['base']} computes", step=i)
            stats["checked"] = stats.get("checked", 0) + 1
            stats["probe.generic_followons"] = stats.get("probe.generic_followons", 0) + 1
            r = same_value(got, want)
            if r:
                raise Violation(ID, "follow-on-differs",
                                f"event {i}: {ev['op']} applied to {var} differs from the same operation applied to {ev['base']}: {r}", step=i)
            log.append([i, "followon", var, ev["op"], fp(got)])
            continue
        if ev["ev"] in ("setitem", "ufunc_out"):
            # in-place operation on x: from here on the reference is x.compute() of the modified x;
            # collections returned by earlier entry points keep the old value and are not compared any more
            try:
                m.apply(ev)
            except Violation:
                raise
            except Exception as e:  # noqa: BLE001
                raise Invalid(f"in-place op rejected: {type(e).__name__}: {str(e)[:200]}")
            try:
                ref = m.compute(m.pool[var], {"policy": "fifo"})
            except Exception as e:  # noqa: BLE001
                raise Invalid(f"x.compute() after the in-place op raises (C11's matter): {type(e).__name__}: {str(e)[:200]}")
            for v_ in list(m.pool):
                # earlier returned collections of x keep the old value; x[:] / +x are the SAME object as x
                # (aliases under another program name): neither is compared with its own pristine any more
                if v_ != var and (m.origin.get(v_) == m.origin.get(var) or m.pool[v_] is m.pool[var]):
                    m.origin[v_] = None
            org_ = m.origin.get(var)
            m.pristine[org_] = dict(m.pristine.get(org_) or {}, value=ref, error=None)
            first.pop(org_, None)
            for f_ in list(m.pristine):
                if f_ != org_ and org_ in {case["recipe"]["steps"][j]["out"] for j in G.needed_steps(case["recipe"], f_)}:
                    m.pristine[f_] = None  # programs built on x: their pristine value is about the unmodified x
            stats["probe.inplace_tail"] = stats.get("probe.inplace_tail", 0) + 1
            log.append([i, ev["ev"], var, fp(ref)])
            continue
        org = m.origin.get(var) if var else None
        if ev["ev"] == "build":
            org = var
        if ev["ev"] == "derive":
            org = ev["as"]
        pr = m.pristine.get(org) if org else None
        usable = pr is not None and pr["error"] is None
        src = m.pool.get(var) if var else None
        try:
            out = m.apply(ev)
        except Violation:
            raise
        except G.fakes.InjectedTaskFailure:
            # injected crash in the middle of this entry point's run: nothing returned; later entry
            # points on the same collections must be unaffected
            log.append([i, ev["ev"], var, "crashed"])
            continue
        except Exception as e:  # noqa: BLE001
            if ev["ev"] in ("build", "derive"):
                raise Invalid(f"{ev['ev']} raised {type(e).__name__}: {str(e)[:200]}")
            if ev["ev"] == "compute_many":
                if all((m.pristine.get(m.origin.get(v)) or {"error": 1})["error"] is None for v in ev["vars"]):
                    raise Violation(ID, "entry-point-raises",
                                    f"event {i}: dask.compute({ev['vars']}) raised {type(e).__name__}: {str(e)[:300]}; "
                                    f"each x.compute() succeeds", step=i)
                continue
            if usable and ev["ev"] in ("compute", "persist", "doptimize", "optimize"):
                raise Violation(ID, "entry-point-raises",
                                f"event {i}: {ev['ev']}:{ev.get('entry', '')}({var}) [program {org}] raised "
                                f"{type(e).__name__}: {str(e)[:300]} while x.compute() of the same program succeeds", step=i)
            log.append([i, ev["ev"], var, "raised-ignored"])
            continue
        kind = ev["ev"] + ":" + str(ev.get("entry", ""))
        if ev["ev"] == "compute":
            kinds.add(kind + ":" + ("returned" if var != x and not var.startswith("v") else "x"))
            if "blocks" in out:
                if usable:
                    r = _assemble(src.chunks, out["blocks"][0], out["blocks"][1], pr["value"])
                    stats["checked"] = stats.get("checked", 0) + 1
                    if r:
                        raise Violation(ID, "entry-points-disagree",
                                        f"event {i}: to_delayed({var}) blocks differ from x.compute(): {r}", step=i)
                log.append([i, "delayed", var, [fp(b) for b in out["blocks"][1]]])
                continue
            val = out["value"]
            if usable:
                stats["checked"] = stats.get("checked", 0) + 1
                r = same_value(val, pr["value"])
                if r:
                    raise Violation(ID, "entry-points-disagree",
                                    f"event {i}: {kind}({var}) [program {org}] differs from x.compute() of the same "
                                    f"program: {r}", step=i)
                if org not in first:
                    first[org] = val
                else:
                    r = same_value(val, first[org])
                    if r:
                        raise Violation(ID, "entry-points-disagree",
                                        f"event {i}: {kind}({var}) differs from the first compute in this history: {r}", step=i)
            log.append([i, kind, var, fp(val)])
        elif ev["ev"] == "compute_many":
            kinds.add("compute_many")
            for v, val in zip(out["vars"], out["values"]):
                p = m.pristine.get(m.origin.get(v))
                if p and p["error"] is None:
                    stats["checked"] = stats.get("checked", 0) + 1
                    r = same_value(val, p["value"])
                    if r:
                        raise Violation(ID, "entry-points-disagree",
                                        f"event {i}: dask.compute({out['vars']}) result for {v} [program {m.origin.get(v)}] "
                                        f"differs from x.compute(): {r}", step=i)
                log.append([i, "many", v, fp(val)])
        elif ev["ev"] in ("persist", "doptimize"):
            kinds.add(kind)
            y = out.get("p") if ev["ev"] == "persist" else out.get("y")
            _same_meta(src, y, i, kind, var)
            log.append([i, kind, var, m.nm(y.name), chunks_json(y.chunks)])
        elif ev["ev"] == "optimize":
            kinds.add(kind)
            y = out["y"]
            if y.dtype != src.dtype or tuple(map(_n, y.shape)) != tuple(map(_n, src.shape)):
                raise Violation(ID, "metadata-not-kept",
                                f"event {i}: x.optimize() changed shape/dtype: {src.shape}/{src.dtype} -> {y.shape}/{y.dtype}", step=i)
            log.append([i, kind, var, m.nm(y.name)])
        elif ev["ev"] == "build":
            log.append([i, "build", var, m.nm(out["x"].name)])
        else:
            log.append([i, ev["ev"], var])
    stats["entry_kinds"] = len(kinds)


def _n(s):
    return None if s != s else int(s)


def _same_meta(x, y, i, kind, var):
    if y.name != x.name:
        raise Violation(ID, "metadata-not-kept", f"event {i}: {kind}({var}) changed the name {x.name} -> {y.name}", step=i)
    if not chunks_eq(y.chunks, x.chunks):
        raise Violation(ID, "metadata-not-kept", f"event {i}: {kind}({var}) changed chunks {x.chunks} -> {y.chunks}", step=i)
    if y.dtype != x.dtype:
        raise Violation(ID, "metadata-not-kept", f"event {i}: {kind}({var}) changed dtype {x.dtype} -> {y.dtype}", step=i)
    if y.__dask_keys__() != x.__dask_keys__():
        raise Violation(ID, "metadata-not-kept", f"event {i}: {kind}({var}) changed __dask_keys__()", step=i)


def candidates(case):
    hist = case["history"]
    for h in H.delete_each(hist):
        if any(e["ev"] == "build" and e["var"] == case["x"] for e in h):
            c = dict(case)
            c["history"] = h
            yield c
    rec = case["recipe"]
    for i in reversed(range(len(rec["steps"]))):
        r = G.drop_step(rec, i)
        if r is None:
            continue
        new, dead, (victim, repl) = r
        ren = {victim: repl}
        xx = ren.get(case["x"], case["x"])
        if xx is None or xx in dead:
            continue
        tg = []
        for t in case["targets"]:
            t = ren.get(t, t)
            if t is not None and t not in dead and t not in tg:
                tg.append(t)
        h2 = []
        ok = True
        for e in hist:
            e = dict(e)
            if "var" in e and e["var"] is not None:
                v2 = ren.get(e["var"], e["var"])
                if v2 is None or v2 in dead:
                    continue
                e["var"] = v2
            if "vars" in e:
                e["vars"] = [ren.get(v, v) for v in e["vars"] if ren.get(v, v) is not None and ren.get(v, v) not in dead]
                if not e["vars"]:
                    continue
            if e["ev"] == "derive":
                a = ren.get(e["as"], e["as"])
                if a is None or a in dead or a == victim:
                    continue
                e["as"] = a
                e["subst"] = {ren.get(k, k): v for k, v in e["subst"].items() if ren.get(k, k) is not None}
            h2.append(e)
        c = dict(case)
        c.update(recipe=new, x=xx, targets=tg, history=h2)
        yield c
    for i, e in enumerate(hist):
        if e.get("policy") not in (None, "fifo") or e.get("release"):
            c = dict(case)
            c["history"] = list(hist)
            c["history"][i] = dict(e, policy="fifo", release=False)
            yield c


FINDING_ABLATIONS = {
    "F2b": (H.pre_generic_driver, H.abl_generic_driver, H.sole_generic_driver),
    "F20": (H.pre_userfn, H.ablate_userfns),
    "F28": (H.pre_masked_unoptimized, H.abl_unmask),
    "F22": (H.pre_nested_window, H.abl_nested_window),
}
