"""C24 — source reads return exactly the requested elements (schedsim + SimSource/SimLock;
fault enumeration over read positions)."""

from __future__ import annotations

import random
import warnings

import numpy as np

from .. import fakes
from .. import gen as G
from .. import npmirror
from ..common import Invalid, UnexecutableGraph, Violation, fp, same_value
from ..preempt import PreemptSim
from ..schedsim import POLICIES, Sim

ID = "C24"


def gen_two_windows(rng, tier):
    """Structured scenario: TWO windows of one source that share shape and final chunks, each read through
    rechunk -> slice -> rechunk (all pushed into the read), combined in one graph.  Pushed-down reads are
    identified by hand-built names; two different regions must never collapse into one read."""
    nd = rng.choice([1, 2])
    n0 = rng.choice([8, 10, 12])
    shape = [n0] + ([rng.choice([3, 4, 6])] if nd == 2 else [])
    kind = rng.choice(["sim", "sim", "ndarray"])
    spec = {"shape": shape, "dtype": rng.choice(["f8", "i8"]), "offset": rng.randint(0, 30), "kind": kind}
    if kind == "sim" and rng.random() < 0.4:
        spec["grid"] = [G.split_dim(rng, n) for n in shape]
    if kind == "sim" and rng.random() < 0.5:
        spec["lock"] = "L0"
    steps = [{"op": "from_array", "in": [], "args": dict({"src": "s0", "chunks": [rng.choice([2, 3, 4])] + shape[1:]},
                                                        **({"lock": "L0"} if spec.get("lock") else {})), "out": "v0"}]
    first = rng.random() < 0.8
    base = "v0"
    if first:
        steps.append({"op": "rechunk", "in": ["v0"], "args": {"chunks": [rng.choice([1, 2, 5])] + shape[1:]}, "out": "v1"})
        base = "v1"
    k = rng.choice([2, 3, 4])
    a = rng.randint(0, n0 - 2 * k)
    b = rng.randint(a + k, n0 - k)
    final = [rng.choice([1, 2, k])] + shape[1:]
    outs = []
    for lo in (a, b):
        i = len(steps)
        steps.append({"op": "getitem", "in": [base], "args": {"index": [[lo, lo + k, None]]}, "out": f"v{i}"})
        steps.append({"op": "rechunk", "in": [f"v{i}"], "args": {"chunks": final}, "out": f"v{i + 1}"})
        outs.append(f"v{i + 1}")
    i = len(steps)
    if rng.random() < 0.6:
        steps.append({"op": "binary", "in": outs[::-1], "args": {"f": "sub"}, "out": f"v{i}"})
    else:
        steps.append({"op": "concat", "in": outs, "args": {"axis": 0, "kind": "concat"}, "out": f"v{i}"})
    recipe = {"sources": {"s0": spec}, "generators": {}, "steps": steps}
    scheds = [{"policy": "fifo", "sseed": 0, "release": False}, {"policy": rng.choice(POLICIES), "sseed": rng.getrandbits(32), "release": True}]
    return {"recipe": recipe, "target": f"v{i}", "knobs": {"slice_limit": rng.choice([None, 0, 64])}, "schedules": scheds,
            "fault_positions": 2, "fseed": rng.getrandbits(32), "optimize_graph": True}


def gen(rng, tier):
    if rng.random() < 0.1:
        return gen_two_windows(rng, tier)
    ctx = G.Ctx(rng)
    ctx.enabled = {"from_array", "getitem", "rechunk", "unary", "transpose", "expand_squeeze", "concat", "binary", "flip_roll"}
    ctx.weights = {"from_array": 2.0, "getitem": 8.0, "rechunk": 5.0, "unary": 1.5, "transpose": 1.0, "expand_squeeze": 0.7,
                   "concat": 1.2, "binary": 1.0, "flip_roll": 0.5}
    ctx.unary_fns = ["neg", "addc", "mulc", "astype", "positive", "square", "abs"]
    ctx.dtypes = ["f8", "i8", "i4", "f4", "u1"]
    ctx.p_simsource = rng.choice([0.7, 0.9, 1.0])
    ctx.p_masked = 0.0
    ctx.p_simlock = rng.choice([0.0, 0.5, 1.0])
    ctx.p_lazy_source = rng.choice([0.0, 0.5, 1.0])
    ctx.p_custom_getitem = rng.choice([0.0, 0.2])
    ctx.p_auto_chunks = 0.1
    ctx.allow_fancy = rng.random() < 0.4
    ctx.allow_step = rng.random() < 0.7
    ctx.allow_unknown = False
    ctx.leaf_damp = 0.1
    recipe = G.gen_program(ctx, rng.randint(2, 8), n_leaves=rng.choice([1, 1, 2]))
    target = G.pick_target(ctx, rng, 0.8)
    knobs = {"slice_limit": rng.choice([None, 0, 0, 64])}
    nsched = 3 if tier == "quick" else 6
    scheds = [{"policy": "fifo", "sseed": 0, "release": False}]
    for _ in range(nsched - 1):
        scheds.append({"policy": rng.choice(POLICIES), "sseed": rng.getrandbits(32), "release": rng.random() < 0.5})
    # line-granular interleaving of 2-3 in-flight reads contending for the shared SimLock (baton-passed
    # threads; a contended acquire parks the task).  A real lock (lock=True) would really block a
    # pre-empted holder's rival, so those programs stay task-atomic.
    true_lock = any(s_["op"] == "from_array" and s_["args"].get("lock") is True for s_ in recipe["steps"])
    sim_lock = any(s_["op"] == "from_array" and isinstance(s_["args"].get("lock"), str) for s_ in recipe["steps"])
    if not true_lock and (sim_lock or rng.random() < 0.25):
        for _ in range(1 if tier == "quick" else 3):
            scheds.append({"policy": "preempt", "inflight": rng.choice([2, 3]), "yield_p": rng.choice([0.1, 0.3, 0.6]),
                           "sseed": rng.getrandbits(32), "release": False})
    return {"recipe": recipe, "target": target, "knobs": knobs, "schedules": scheds,
            "fault_positions": "all" if tier == "thorough" else 4, "fseed": rng.getrandbits(32),
            "optimize_graph": rng.random() < 0.9}


def shape_of(case, stats):
    return [[(s["op"], str(s["args"].get("index") or s["args"].get("chunks") or "")) for s in case["recipe"]["steps"]],
            case["knobs"], stats.get("requests")]


def nontrivial(case, stats):
    return stats.get("requests", 0) >= 2 and stats.get("pushdown_steps", 0) >= 1


def _check_fakes(env, when, locks_must_be_free=True):
    for s in fakes.ALL_SOURCES:
        if s.errors:
            raise Violation(ID, "request-out-of-bounds", f"{when}: source {s.name} (shape {s.shape}): {s.errors[0]}")
        if s.lock is not None:
            for r in s.log:
                if r[0] == "execute" and r[4] is False:
                    raise Violation(ID, "read-without-lock",
                                    f"{when}: source {s.name} was read ({r[2]}) by task {r[1]} without holding the lock "
                                    f"{s.lock.name} that was passed to from_array")
        if not s.unchanged():
            raise Violation(ID, "source-mutated", f"{when}: backing array of {s.name} changed")
    for name, lk in sorted(fakes._LOCKS.items()):
        if lk.errors:
            raise Violation(ID, "lock-misuse", f"{when}: {lk.errors[0]}")
        if locks_must_be_free and lk.locked():
            raise Violation(ID, "lock-leaked", f"{when}: lock {name} is still held by {lk.owner} after the run")


def execute(case, stats, log):
    import dask
    import dask_array.io._from_array as fa

    recipe = case["recipe"]
    if case["knobs"].get("slice_limit") is not None:
        fa._NUMPY_SLICE_PUSHDOWN_NBYTES_LIMIT = case["knobs"]["slice_limit"]
    try:
        env = G.build_all(recipe)
        x = env.vars[case["target"]]
        expected = npmirror.np_eval(recipe, env, case["target"])
    except Invalid:
        raise
    except Exception as e:  # noqa: BLE001
        raise Invalid(f"build: {type(e).__name__}: {e}")
    _check_fakes(env, "construction")
    for s in fakes.ALL_SOURCES:
        bad = s.nonempty_outside_execute()
        if bad:
            stats["unclaimed.read_at_build"] = stats.get("unclaimed.read_at_build", 0) + 1
    stats["pushdown_steps"] = sum(1 for s in recipe["steps"] if s["op"] in ("getitem", "rechunk"))

    def run(sched, fail=None):
        for s in fakes.ALL_SOURCES:
            s.fail_at = None
            s.nreq = 0
        if fail is not None:
            src, k = fail
            src.fail_at = k
        if sched["policy"] == "preempt":
            sim = PreemptSim(random.Random(sched["sseed"]), inflight=sched.get("inflight", 2), yield_p=sched.get("yield_p", 0.3),
                             prop=ID, stats=stats, locks=list(fakes._LOCKS.values()))
            stats["fault.preempt_runs"] = stats.get("fault.preempt_runs", 0) + 1
        else:
            sim = Sim(random.Random(sched["sseed"]), policy=sched["policy"], release=sched["release"], prop=ID, stats=stats)
        with warnings.catch_warnings():
            warnings.simplefilter("ignore")
            with dask.config.set({"array.optimize-graph": case.get("optimize_graph", True)}):
                val = x.compute(scheduler=sim)
        stats["steps"] = stats.get("steps", 0) + sim.steps
        return val

    # fault-free runs under several schedules
    nreq = {}
    for si, sched in enumerate(case["schedules"]):
        try:
            val = run(sched)
        except Violation:
            raise
        except UnexecutableGraph as e:
            raise Violation(ID, "read-graph-unexecutable", f"schedule {si}: {e}")
        except Exception as e:  # noqa: BLE001
            _check_fakes(env, f"schedule {si} (raised)", locks_must_be_free=True)
            raise Violation(ID, "read-raises", f"schedule {si} ({sched['policy']}): compute raised {type(e).__name__}: {str(e)[:300]} "
                                               f"but NumPy indexing of the source succeeds")
        _check_fakes(env, f"schedule {si} ({sched['policy']})")
        r = same_value(val, expected, exact=True)
        if r:
            raise Violation(ID, "wrong-elements", f"schedule {si} ({sched['policy']}): result differs from NumPy indexing of the "
                                                  f"source: {r}")
        if si == 0:
            nreq = {id(s): s.nreq for s in fakes.ALL_SOURCES}
            stats["requests"] = sum(nreq.values())
        log.append(["run", si, sched["policy"], fp(val), [s.nreq for s in fakes.ALL_SOURCES]])
    # read faults at request positions
    positions = [(s, k) for s in fakes.ALL_SOURCES for k in range(nreq.get(id(s), 0))]
    frng = random.Random(case["fseed"])
    if case["fault_positions"] != "all" and len(positions) > case["fault_positions"]:
        positions = frng.sample(positions, case["fault_positions"])
    elif case["fault_positions"] == "all" and len(positions) > 32:
        # exhaustive up to 32 positions per program; beyond that a seeded sample of 32 (run-time bound)
        stats["probe.fault_positions_sampled"] = stats.get("probe.fault_positions_sampled", 0) + 1
        positions = frng.sample(positions, 32)
    pre = [s_ for s_ in case["schedules"] if s_["policy"] == "preempt"]
    for pi_, (src, k) in enumerate(positions):
        # every other fault lands while other reads are in flight (error under lock contention)
        sched = pre[0] if (pre and pi_ % 2 == 1) else case["schedules"][0]
        try:
            val = run(sched, fail=(src, k))
        except fakes.InjectedIOError:
            stats["fault.read_error"] = stats.get("fault.read_error", 0) + 1
            _check_fakes(env, f"read fault at request {k} of {src.name}")
        except Violation:
            raise
        except Exception as e:  # noqa: BLE001
            if src.faults_fired:
                # the injected error may legitimately be wrapped; it must still be an error
                stats["fault.read_error"] = stats.get("fault.read_error", 0) + 1
                stats["probe.fault_wrapped"] = stats.get("probe.fault_wrapped", 0) + 1
                _check_fakes(env, f"read fault at request {k} of {src.name}")
            else:
                raise Violation(ID, "read-raises", f"fault run raised {type(e).__name__}: {str(e)[:200]} before the fault fired")
        else:
            if src.faults_fired:
                raise Violation(ID, "fault-swallowed",
                                f"request {k} of {src.name} raised an injected I/O error but compute returned data "
                                f"(fingerprint {fp(val)}) instead of raising")
        src.faults_fired = 0
        # a subsequent fault-free compute of the same collection must be correct (nothing poisoned)
        try:
            val = run(sched)
        except Exception as e:  # noqa: BLE001
            raise Violation(ID, "retry-after-fault-fails", f"after a read fault at request {k} of {src.name}, a fault-free compute "
                                                           f"raised {type(e).__name__}: {str(e)[:200]}")
        r = same_value(val, expected, exact=True)
        if r:
            raise Violation(ID, "retry-after-fault-wrong", f"after a read fault at request {k} of {src.name}, a fault-free compute "
                                                           f"returned wrong data: {r}")
        _check_fakes(env, f"retry after fault at {k}")
        log.append(["fault", src.name, k])
    stats["probe.lock_acquisitions"] = sum(lk.acquisitions for lk in fakes._LOCKS.values())
    stats["probe.custom_getter_calls"] = len(fakes.GETTER_LOG)
    del fakes.GETTER_LOG[:]


def candidates(case):
    rec = case["recipe"]
    if len(case["schedules"]) > 1:
        c = dict(case)
        c["schedules"] = case["schedules"][:1]
        yield c
    if case["fault_positions"] not in (0,):
        c = dict(case)
        c["fault_positions"] = 0
        yield c
    for i in reversed(range(len(rec["steps"]))):
        r = G.drop_step(rec, i)
        if r is None:
            continue
        new, dead, (victim, repl) = r
        t = case["target"]
        if t == victim:
            t = repl
        if t is None or t in dead:
            continue
        c = dict(case)
        c["recipe"] = new
        c["target"] = t
        yield c
    if case["knobs"].get("slice_limit") is not None:
        c = dict(case)
        c["knobs"] = dict(case["knobs"], slice_limit=None)
        yield c
