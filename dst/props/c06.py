"""C06 — equal names denote equal arrays (histsim: name registry, key/value registry, merge check)."""

from __future__ import annotations

import numpy as np

from .. import gen as G
from .. import histsim as H
from ..common import Invalid, Violation, chunks_eq, chunks_json, fp, same_value
from . import c09

ID = "C06"


def gen(rng, tier):
    ctx = G.Ctx(rng)
    names = sorted(G.OPS)
    ctx.enabled = G.swarm_subset(rng, names, 0.7, always=("from_array", "rechunk", "getitem", "binary", "map_blocks"))
    ctx.weights = {"random": 0.5, "rechunk": 5.0, "getitem": 6.0, "from_array": 5.0, "binary": 3.0, "map_blocks": 1.5}
    ctx.p_auto_chunks = rng.choice([0.2, 0.5, 0.8])
    ctx.p_closure_fn = rng.choice([0.25, 0.6])
    ctx.weights["map_blocks"] = rng.choice([1.0, 3.0])
    ctx.p_random_twin = 0.5
    ctx.weights["random"] = rng.choice([0.5, 4.0, 12.0])
    ctx.p_simsource = rng.choice([0.0, 0.3])
    ctx.p_untokenizable = rng.choice([0.0, 0.3])
    ctx.leaf_damp = rng.choice([0.15, 0.4])
    ctx.allow_step = rng.random() < 0.5
    recipe, targets = c09.gen_programs(rng, ctx, tier, 4, 11)
    leaves = [s["out"] for s in recipe["steps"] if s["op"] == "from_array" and isinstance(s["args"]["chunks"], str)]
    if leaves and rng.random() < 0.6:
        lf = rng.choice(leaves)
        if lf not in targets:
            targets.insert(rng.randrange(len(targets) + 1), lf)
    # twins (identically seeded generators, other chunking) and same-spec siblings must meet in one process
    rnd = [s_["out"] for s_ in recipe["steps"] if s_["op"] == "random"]
    if len(rnd) >= 2 and rng.random() < 0.8:
        for v in rnd[:4]:
            if v not in targets:
                targets.append(v)
    # sibling closures (one factory, other captured value, same input) must meet in one process too
    clo = [s_["out"] for s_ in recipe["steps"] if s_["op"] == "map_blocks" and s_["args"].get("fn") == "closure"]
    if len(clo) >= 2 and rng.random() < 0.8:
        for v in clo[:3]:
            if v not in targets:
                targets.append(v)
    knobs = {"slice_limit": rng.choice([None, 0, 64, 4096])}
    cfg_keys = ["array.chunk-size", "array.unify-chunks-policy", "array.unify-chunks-limit", "array.rechunk.threshold",
                "array.rechunk.degree-limit", "array.optimize-graph"]
    cfg_keys = [k for k in cfg_keys if rng.random() < 0.6] or ["array.chunk-size"]
    hist = gen_history(rng, targets, cfg_keys, tier)
    return {"scribble": rng.random() < 0.5, "recipe": recipe, "targets": targets, "history": hist, "knobs": knobs}


def gen_history(rng, targets, cfg_keys, tier):
    n = rng.randint(6, 20 if tier == "quick" else 28)
    built, extra, hist = [], [], []
    k = [0]
    p_fault = rng.choice([0.2, 0.35, 0.5])
    while len(hist) < n:
        unbuilt = [t for t in targets if t not in built]
        live = built + extra
        if rng.random() < p_fault:
            r = rng.random()
            if r < 0.4:
                hist.append(H.rand_config_event(rng, cfg_keys))
            elif r < 0.55:
                hist.append({"ev": "gc"})
            elif r < 0.7:
                hist.append({"ev": "evict", "what": rng.choice(["lower", "singleton"])})
            elif built:
                v = rng.choice(built)
                built.remove(v)
                hist.append({"ev": "drop", "var": v})
                if rng.random() < 0.7:
                    hist.append({"ev": "gc"})
            continue
        r = rng.random()
        if unbuilt and (not live or r < 0.3):
            v = rng.choice(unbuilt)
            built.append(v)
            hist.append({"ev": "build", "var": v})
        elif not live:
            continue
        elif r < 0.45:
            k[0] += 1
            o = f"p{k[0]}"
            v = rng.choice(live)
            hist.append(dict({"ev": "persist", "var": v, "entry": rng.choice(["method", "dask"]), "out": o},
                             **H.rand_sched(rng)))
            extra.append(o)
            if v in built and rng.random() < 0.4:
                # fault placed right after the snapshot: the persisted data outlives its expression,
                # which is then rebuilt (possibly under another configuration)
                hist.append({"ev": "drop", "var": v})
                if rng.random() < 0.8:
                    hist.append({"ev": "gc"})
                if rng.random() < 0.7:
                    hist.append(H.rand_config_event(rng, cfg_keys))
                hist.append({"ev": "build", "var": v})
                hist.append(dict({"ev": "compute_many", "vars": [o, v]}, **H.rand_sched(rng)))
        elif r < 0.49 and built:
            # ship: dump a collection, let go of everything alive, collect, change the configuration, load
            k[0] += 1
            o = f"l{k[0]}"
            hist.append({"ev": "dump", "var": rng.choice(live), "slot": o})
            for w in list(built) + list(extra):
                hist.append({"ev": "drop", "var": w})
            del built[:]
            del extra[:]
            hist.append({"ev": "gc"})
            if rng.random() < 0.8:
                hist.append({"ev": "config", "key": "array.chunk-size", "value": rng.choice(H.CONFIG_DOMAIN["array.chunk-size"])})
            hist.append({"ev": "load", "slot": o, "out": o})
            extra.append(o)
            hist.append(dict({"ev": "compute", "var": o}, **H.rand_sched(rng)))
        elif r < 0.52:
            k[0] += 1
            o = f"u{k[0]}"
            hist.append({"ev": "pickle", "var": rng.choice(live), "out": o})
            extra.append(o)
        elif r < 0.6:
            hist.append({"ev": "graph", "var": rng.choice(live)})
        elif r < 0.66:
            k[0] += 1
            o = f"o{k[0]}"
            hist.append({"ev": "optimize", "var": rng.choice(live), "out": o})
            extra.append(o)
        elif r < 0.8 and len(live) >= 2:
            hist.append(dict({"ev": "compute_many", "vars": rng.sample(live, rng.randint(2, min(3, len(live))))},
                             **H.rand_sched(rng)))
        else:
            hist.append(dict({"ev": "compute", "var": rng.choice(live)}, **H.rand_sched(rng)))
    live = built + extra
    if len(live) >= 2:
        hist.append(dict({"ev": "compute_many", "vars": live[-3:]}, **H.rand_sched(rng)))
    return hist


def shape_of(case, stats):
    return [[s["op"] for s in case["recipe"]["steps"]], [(e["ev"], e.get("key"), e.get("value")) for e in case["history"]]]


def nontrivial(case, stats):
    return stats.get("names_seen_twice", 0) >= 1 and stats.get("keys_seen_twice", 0) >= 1


def _nodes_of(x):
    out = []
    seen = set()
    roots = [x.expr]
    lo = x.__dict__.get("_lowered_expr")
    if lo is not None:
        roots.append(lo)
    for r in roots:
        for node in r.walk():
            if id(node) in seen:
                continue
            seen.add(id(node))
            out.append(node)
    return out


class Registry:
    def __init__(self, stats):
        self.names = {}  # name -> (shape, chunks, dtype, where)
        self.keys = {}  # key -> (value, where)
        self.stats = stats

    def see_node(self, node, where):
        try:
            name = node._name
            chunks = node.chunks
            dtype = node.dtype
            shape = node.shape
        except Exception:  # noqa: BLE001 -- non-array helper nodes
            return
        rec = self.names.get(name)
        if rec is None:
            self.names[name] = (shape, chunks, dtype, where, type(node).__name__)
            return
        self.stats["names_seen_twice"] = self.stats.get("names_seen_twice", 0) + 1
        s0, c0, d0, w0, t0 = rec
        if not chunks_eq(c0, chunks) or d0 != dtype:
            raise Violation(ID, "same-name-different-structure",
                            f"name {name} denotes {t0} chunks={c0} dtype={d0} ({w0}) and {type(node).__name__} "
                            f"chunks={chunks} dtype={dtype} ({where})")

    def see_values(self, values, where):
        for k in sorted(values, key=repr):
            v = values[k]
            if fp(v) is None:
                continue
            rec = self.keys.get(k)
            if rec is None:
                self.keys[k] = (v, where)
                continue
            self.stats["keys_seen_twice"] = self.stats.get("keys_seen_twice", 0) + 1
            try:
                r = same_value(v, rec[0])
            except Exception:  # noqa: BLE001 -- exotic container: fall back to bit equality
                r = None if fp(v) == fp(rec[0]) else "fingerprints differ"
                if r:
                    self.stats["unclaimed.incomparable_key_values"] = self.stats.get("unclaimed.incomparable_key_values", 0) + 1
                    r = None
            if r:
                raise Violation(ID, "same-key-different-value",
                                f"graph key {k!r} computed to different values in this process: {r} "
                                f"(first: {rec[1]}; now: {where})")


def execute(case, stats, log):
    import dask_array.io._from_array as fa

    m = H.Machine(case, stats, log, ID)
    m.pristine_phase(case["targets"])  # only to learn which programs compute at all
    if case.get("knobs", {}).get("slice_limit") is not None:
        fa._NUMPY_SLICE_PUSHDOWN_NBYTES_LIMIT = case["knobs"]["slice_limit"]
    m.all_values = {}
    reg = Registry(stats)
    name_of_program = {}
    for i, ev in enumerate(case["history"]):
        var = ev.get("var")
        if ev["ev"] == "compute_many":
            vs = [v for v in ev["vars"] if v in m.pool]
            if len(vs) < 1:
                continue
            ev = dict(ev, vars=vs)
        elif var is not None and ev["ev"] != "build" and var not in m.pool:
            continue
        where = f"event {i} {ev['ev']}({var if var else ev.get('vars', '')})"
        try:
            out = m.apply(ev)
        except Violation:
            raise
        except Exception as e:  # noqa: BLE001
            if ev["ev"] == "build":
                raise Invalid(f"build raised {type(e).__name__}: {str(e)[:200]}")
            # an entry point that raises is C05/C09's matter; C06 only judges what was computed
            stats["unclaimed.raised"] = stats.get("unclaimed.raised", 0) + 1
            log.append([i, ev["ev"], var, "raised-ignored"])
            continue
        if ev["ev"] in ("compute", "compute_many", "persist"):
            sim = getattr(m, "last_sim", None)
            if sim is not None and sim.values:
                reg.see_values(sim.values, where)
                sim.values = {}
        if ev["ev"] == "compute_many":
            # (c) merge check: computed together == computed separately
            for v, val in zip(out["vars"], out["values"]):
                try:
                    alone = m.compute(m.pool[v], dict(ev, policy="fifo"))
                except Violation:
                    raise
                except Exception:  # noqa: BLE001 -- an entry point that raises is C05's matter
                    stats["unclaimed.raised"] = stats.get("unclaimed.raised", 0) + 1
                    continue
                r = same_value(val, alone)
                stats["merge_checks"] = stats.get("merge_checks", 0) + 1
                if r:
                    raise Violation(ID, "merged-compute-differs",
                                    f"event {i}: dask.compute({out['vars']}) result for {v} differs from computing {v} "
                                    f"alone: {r}", step=i)
                reg.see_values(m.last_sim.values, where + " (alone)")
                log.append([i, "many", v, fp(val)])
        elif ev["ev"] == "compute":
            log.append([i, "compute", var, fp(out["value"])])
        else:
            log.append([i, ev["ev"], var, ev.get("key"), str(ev.get("value"))])
        # (a) name registry over every live collection
        for v in sorted(m.pool):
            for node in _nodes_of(m.pool[v]):
                reg.see_node(node, f"{v} after {where}")
        # (d) substitution: two DIFFERENT programs of the recipe whose collections carry one name although
        #     the programs, each built alone in the pristine phase, compute different arrays -- name-keyed
        #     dedup (the singleton registry first of all) has then handed one program the other's node
        if ev["ev"] == "build":
            o = m.origin.get(var)
            pr = m.pristine.get(o)
            if pr and pr["error"] is None and not m._volatile(o):
                nm = m.pool[var].name
                for o2, n2 in sorted(name_of_program.items()):
                    pr2 = m.pristine.get(o2)
                    if o2 == o or n2 != nm or not pr2 or pr2["error"] is not None:
                        continue
                    stats["probe.programs_sharing_a_name"] = stats.get("probe.programs_sharing_a_name", 0) + 1
                    r = same_value(pr["value"], pr2["value"])
                    if r:
                        raise Violation(ID, "same-name-different-programs",
                                        f"event {i}: programs {o2} and {o} both carry the name {m.nm(nm)} but, built alone, "
                                        f"compute different arrays: {r}", step=i)
                name_of_program[o] = nm


candidates = c09.candidates


FINDING_ABLATIONS = {
    "F15": (lambda case, result: result.get("cls") == "same-name-different-structure" and H.pre_unify_flip(case, result), H.abl_unify_flip),
    "F20": (H.pre_userfn, H.ablate_userfns),
    # dask.persist(<raw collection>) (dask's generic driver) when optimization changes the root block grid:
    # the persisted collection keeps x's name and advertised chunks but holds the blocks of the
    # REWRITTEN grid, so the key (x.name, 0, ...) denotes differently shaped blocks in p and in x
    "F2b": (H.pre_generic_driver, H.abl_generic_driver),
}
