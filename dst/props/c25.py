"""C25 — store writes exactly the array into the requested target regions (schedsim +
SimTarget/SimLock; fault enumeration over write positions; npy-stack round trip)."""

from __future__ import annotations

import os
import random
import shutil
import tempfile
import warnings

import numpy as np

from .. import fakes
from .. import gen as G
from ..common import HarnessError, Invalid, UnexecutableGraph, Violation, chunks_eq, fp, same_value
from ..preempt import PreemptSim
from ..schedsim import POLICIES, Sim

ID = "C25"
SENTINEL = {"f": -777.0, "i": -77, "u": 201, "b": False, "c": -777.0}


def gen(rng, tier):
    ctx = G.Ctx(rng)
    names = sorted(G.OPS)
    ctx.enabled = G.swarm_subset(rng, names, 0.6, always=("from_array", "rechunk", "binary", "getitem"))
    for bad in ("dask_index", "random", "topk"):
        ctx.enabled.discard(bad)
    ctx.dtypes = ["f8", "i8", "i4", "f4", "u1"]
    ctx.p_masked = 0.0
    ctx.allow_unknown = False
    ctx.p_simsource = rng.choice([0.0, 0.5])
    ctx.p_simlock = rng.choice([0.0, 1.0])
    recipe = G.gen_program(ctx, rng.randint(1, 6), n_leaves=rng.randint(1, 2))
    cands = [s["out"] for s in recipe["steps"] if G.known(ctx.env.vars[s["out"]]) and ctx.env.vars[s["out"]].ndim >= 1
             and ctx.env.vars[s["out"]].dtype.kind in "fiu" and ctx.env.vars[s["out"]].size < 400]
    if not cands:
        raise Invalid("no storable variable")
    mode = "npy" if rng.random() < 0.15 else "store"
    npairs = 1 if mode == "npy" else rng.choice([1, 1, 2, 3])
    pairs = []
    tkind = rng.choice(["sim", "sim", "nd"])
    for _ in range(npairs):
        if pairs and rng.random() < 0.3:
            # the same source into a second target of the same shape (equal contents before the store)
            pairs.append(dict(pairs[-1]))
            continue
        v = rng.choice(cands)
        X = ctx.env.vars[v]
        shape = [int(s) for s in X.shape]
        if rng.random() < 0.25:
            pairs.append({"src": v, "tshape": shape, "region": None})
            continue
        lo = [rng.randint(0, 3) for _ in shape]
        hi = [rng.randint(0, 3) for _ in shape]
        tshape = [a + n + b for a, n, b in zip(lo, shape, hi)]
        region = []
        for a, n, t in zip(lo, shape, tshape):
            start, stop = a, a + n
            r = rng.random()
            if r < 0.15:
                start = a if a else None
                stop = a + n if a + n != t else None
            region.append([start, stop, None])
        pairs.append({"src": v, "tshape": tshape, "region": region})
    lock = rng.choice([True, False, "L0", "L0"])
    shared = None
    if mode == "store" and rng.random() < 0.2:
        # several pairs write disjoint regions of ONE target whose writes are read-modify-write of storage
        # blocks that straddle the regions (a compressed-chunk store): correct only if all writers of the
        # target exclude each other, i.e. hold the same lock
        v = rng.choice(cands)
        X = ctx.env.vars[v]
        shape = [int(s_) for s_ in X.shape]
        kk = rng.choice([2, 2, 3])
        off = rng.randint(0, 2)
        tshape = [off + kk * shape[0] + rng.randint(0, 2)] + [n + rng.randint(0, 1) for n in shape[1:]]
        pairs = []
        for j in range(kk):
            region = [[off + j * shape[0], off + (j + 1) * shape[0], None]] + [[0, n, None] for n in shape[1:]]
            pairs.append({"src": v, "tshape": tshape, "region": region})
        shared = {"rmw": [max(2, shape[0] + rng.choice([-1, 1, 2]))] + [max(1, n) for n in tshape[1:]]}
        tkind = "sim"
        lock = rng.choice([True, True, "L0"])
    # ambient scheduler: store() is called WITHOUT a scheduler argument under dask.config.set(scheduler=...);
    # the named schedulers are simulated ones, the process pool runs every graph on a PICKLED COPY (writes
    # of a remote worker land in its own copy of an in-memory target), a "client" is a callable that does too
    ambient = None
    if mode == "store" and not shared and rng.random() < 0.15:
        ambient = rng.choice(["threads", "sync", "processes", "multiprocessing", "client", "Threads"])
        tkind = "nd"
    scheds = [{"policy": "fifo", "sseed": 0, "release": False}]
    for _ in range(2 if tier == "quick" else 5):
        scheds.append({"policy": rng.choice(POLICIES), "sseed": rng.getrandbits(32), "release": rng.random() < 0.5})
    # line-granular interleaving of 2-3 in-flight store tasks contending for the lock (baton-passed
    # threads).  Real locks (lock=True here or on a source) would really block, so those stay atomic.
    # (lock=True on the store itself is fine: the harness owns the seam that makes that lock)
    true_lock = any(s_["op"] == "from_array" and s_["args"].get("lock") is True for s_ in recipe["steps"])
    if mode == "store" and not true_lock and (isinstance(lock, str) or shared or rng.random() < 0.3):
        for _ in range((1 if tier == "quick" else 3) + (2 if shared else 0)):
            scheds.append({"policy": "preempt", "inflight": rng.choice([2, 3]), "yield_p": rng.choice([0.1, 0.3, 0.6]),
                           "sseed": rng.getrandbits(32), "release": False})
    if ambient:
        scheds = scheds[:3]
        return {"recipe": recipe, "pairs": pairs, "lock": lock if lock is not True else False, "mode": mode, "shared": None,
                "ambient": ambient, "axis": 0, "tkind": "nd", "compute": True, "return_stored": False,
                "schedules": [s_ for s_ in scheds if s_["policy"] != "preempt"], "fault_positions": 0, "fseed": 0}
    return {"recipe": recipe, "pairs": pairs, "lock": lock, "mode": mode, "shared": shared, "axis": rng.randrange(8), "tkind": tkind,
            "compute": rng.random() < 0.7, "return_stored": rng.random() < 0.3, "schedules": scheds,
            "fault_positions": "all" if tier == "thorough" else 3, "fseed": rng.getrandbits(32)}


def shape_of(case, stats):
    return [[s["op"] for s in case["recipe"]["steps"]], [(p["tshape"], str(p["region"])) for p in case["pairs"]],
            case.get("tkind"), bool(case.get("shared")), case["lock"], case["mode"], case["compute"], case["return_stored"], stats.get("writes")]


def nontrivial(case, stats):
    return stats.get("writes", 0) >= 2 or stats.get("npy_files", 0) >= 2


def _region_tuple(region):
    return None if region is None else tuple(slice(*r) for r in region)


def _sim(sched, stats):
    if sched["policy"] == "preempt":
        stats["fault.preempt_runs"] = stats.get("fault.preempt_runs", 0) + 1
        return PreemptSim(random.Random(sched["sseed"]), inflight=sched.get("inflight", 2), yield_p=sched.get("yield_p", 0.3),
                          prop=ID, stats=stats, locks=list(fakes._LOCKS.values()))
    return Sim(random.Random(sched["sseed"]), policy=sched["policy"], release=sched["release"], prop=ID, stats=stats)


def execute(case, stats, log):
    import dask
    import dask_array as da

    recipe = case["recipe"]
    try:
        env = G.build_all(recipe)
        xs = [env.vars[p["src"]] for p in case["pairs"]]
    except Exception as e:  # noqa: BLE001
        raise Invalid(f"build: {type(e).__name__}: {e}")
    # source values by dask's own compute (isolates the store from upstream correctness)
    vals = []
    for x in xs:
        try:
            with warnings.catch_warnings():
                warnings.simplefilter("ignore")
                vals.append(np.asarray(x.compute(scheduler=_sim(case["schedules"][0], {}))))
        except Exception as e:  # noqa: BLE001
            raise Invalid(f"source does not compute: {type(e).__name__}: {e}")
    if case["mode"] == "npy":
        return run_npy(case, env, xs[0], vals[0], stats, log)
    lock = env.lock(case["lock"]) if isinstance(case["lock"], str) else case["lock"]
    obs_lock = lock if isinstance(lock, fakes.SimLock) else None
    shared = case.get("shared")
    import dask_array.io._store as _st

    # seam: the lock store() makes for lock=True comes from this module attribute (looked up at call time)
    real_gsl = _st.get_scheduler_lock
    nauto = [0]

    def sim_scheduler_lock(collection=None, scheduler=None):
        nauto[0] += 1
        stats["probe.auto_locks"] = stats.get("probe.auto_locks", 0) + 1
        return fakes.new_lock(f"auto{nauto[0]}")

    _st.get_scheduler_lock = sim_scheduler_lock
    try:
        return _execute_store(case, stats, log, env, xs, vals, lock, obs_lock, shared)
    finally:
        _st.get_scheduler_lock = real_gsl


class _CopyingScheduler:
    """A scheduler whose workers live in other processes: every graph is run on a pickled copy."""

    def __init__(self, sim, stats):
        self.sim, self.stats = sim, stats

    def __call__(self, dsk, keys, **kw):
        import cloudpickle

        if hasattr(dsk, "__dask_graph__"):
            dsk = dsk.__dask_graph__()
        self.stats["probe.ran_on_pickled_copy"] = self.stats.get("probe.ran_on_pickled_copy", 0) + 1
        return self.sim.run(cloudpickle.loads(cloudpickle.dumps(dict(dsk))), keys)


def _store_under_ambient(ambient, sim, srcs, tgts, lock, kw, stats):
    import dask
    import dask.base
    import dask_array as da

    saved = dict(dask.base.named_schedulers)
    remote = _CopyingScheduler(sim, stats)
    try:
        for k in ("threads", "threading", "sync", "synchronous", "single-threaded"):
            dask.base.named_schedulers[k] = sim.get
        for k in ("processes", "multiprocessing"):
            dask.base.named_schedulers[k] = remote
        value = remote if ambient == "client" else ambient
        stats[f"fault.ambient.{ambient}"] = stats.get(f"fault.ambient.{ambient}", 0) + 1
        with dask.config.set(scheduler=value), warnings.catch_warnings():
            warnings.simplefilter("ignore")
            da.store(srcs, tgts, lock=lock, compute=True, **kw)
    finally:
        dask.base.named_schedulers.clear()
        dask.base.named_schedulers.update(saved)
    return None


def _execute_store(case, stats, log, env, xs, vals, lock, obs_lock, shared):
    import dask
    import dask_array as da

    def make_targets():
        ts = []
        if shared:
            p, x = case["pairs"][0], xs[0]
            t = fakes.SimTarget(p["tshape"], x.dtype, SENTINEL[x.dtype.kind], name="t0", lock=obs_lock, rmw=shared["rmw"])
            return [t] * len(case["pairs"])
        for p, x in zip(case["pairs"], xs):
            mk = fakes.NDTarget.make if case.get("tkind") == "nd" else fakes.SimTarget
            ts.append(mk(p["tshape"], x.dtype, SENTINEL[x.dtype.kind], name=f"t{len(ts)}", lock=obs_lock))
        return ts

    def models(ts):
        out = []
        if shared:
            t = ts[0]
            m = np.full(case["pairs"][0]["tshape"], SENTINEL[t.dtype.kind], dtype=t.dtype)
            cnt = np.zeros(case["pairs"][0]["tshape"], dtype=np.int64)
            for p, v in zip(case["pairs"], vals):
                reg = _region_tuple(p["region"])
                m[reg] = v
                cnt[reg] += 1
            return [(m, cnt)] * len(ts)
        for p, t, v in zip(case["pairs"], ts, vals):
            m = np.full(p["tshape"], SENTINEL[t.dtype.kind], dtype=t.dtype)
            cnt = np.zeros(p["tshape"], dtype=np.int64)
            reg = _region_tuple(p["region"])
            if reg is None:
                m[...] = v
                cnt[...] = 1
            else:
                m[reg] = v
                cnt[reg] = 1
            out.append((m, cnt))
        return out

    def do_store(ts, sched, fail=None):
        for t in ts:
            t.fail_at = None
        if fail is not None:
            ts[fail[0]].fail_at = fail[1]
        sim = _sim(sched, stats)
        regions = [_region_tuple(p["region"]) for p in case["pairs"]]
        kw = {}
        if any(r is not None for r in regions):
            kw["regions"] = regions if len(regions) > 1 else regions[0]
        srcs, tgts = (xs, ts) if len(xs) > 1 else (xs[0], ts[0])
        if case.get("ambient"):
            return _store_under_ambient(case["ambient"], sim, srcs, tgts, lock, kw, stats)
        with warnings.catch_warnings():
            warnings.simplefilter("ignore")
            res = da.store(srcs, tgts, lock=lock, compute=case["compute"], return_stored=case["return_stored"],
                           scheduler=sim, **kw) if case["compute"] else da.store(
                srcs, tgts, lock=lock, compute=False, return_stored=case["return_stored"], **kw)
            if not case["compute"]:
                if case["return_stored"]:
                    rs = res if isinstance(res, tuple) else (res,)
                    out = dask.compute(*rs, scheduler=sim)
                    res = ("values", out)
                else:
                    dask.compute(res, scheduler=sim)
                    res = None
            elif case["return_stored"]:
                rs = res if isinstance(res, tuple) else (res,)
                out = dask.compute(*rs, scheduler=_sim(sched, stats))
                res = ("values", out)
        stats["steps"] = stats.get("steps", 0) + sim.steps
        return res

    def check_fakes(ts, when, faulted=False):
        for t in ts:
            if t.errors:
                raise Violation(ID, "bad-write", f"{when}: target {t.name} (shape {t.shape}): {t.errors[0]}")
        for name, lk in sorted(fakes._LOCKS.items()):
            if lk.errors:
                raise Violation(ID, "lock-misuse", f"{when}: {lk.errors[0]}")
            if lk.locked():
                raise Violation(ID, "lock-leaked", f"{when}: lock {name} still held by {lk.owner} after the run")
        for s in fakes.ALL_SOURCES:
            if s.errors:
                raise Violation(ID, "bad-read", f"{when}: {s.errors[0]}")

    nwrites = None
    for si, sched in enumerate(case["schedules"]):
        ts = make_targets()
        try:
            res = do_store(ts, sched)
        except Violation:
            raise
        except UnexecutableGraph as e:
            raise Violation(ID, "store-graph-unexecutable", f"schedule {si}: {e}")
        except HarnessError:
            raise
        except NotImplementedError as e:
            raise Invalid(f"store refuses this input: {e}")  # refused loudly (e.g. negative region bounds): not a wrong write
        except Exception as e:  # noqa: BLE001
            raise Violation(ID, "store-raises", f"schedule {si} ({sched['policy']}): store raised {type(e).__name__}: {str(e)[:300]}")
        check_fakes(ts, f"schedule {si} ({sched['policy']})")
        for pi, (t, (m, cnt)) in enumerate(zip(ts, models(ts))):
            r = same_value(t._a, m, exact=True)
            if r:
                raise Violation(ID, "target-contents-wrong",
                                f"schedule {si} ({sched['policy']}): target {pi} (region {case['pairs'][pi]['region']}) differs "
                                f"from t[region] = value(x) with everything else untouched: {r}")
            if not np.array_equal(t.count, cnt):
                bad = np.argwhere(t.count != cnt)[0]
                raise Violation(ID, "write-count-wrong",
                                f"schedule {si}: target {pi} cell {tuple(int(b) for b in bad)} was written "
                                f"{int(t.count[tuple(bad)])} times, expected {int(cnt[tuple(bad)])}")
        if res is not None and res[0] == "values":
            for pi, (got, v) in enumerate(zip(res[1], vals)):
                r = same_value(np.asarray(got), v, exact=True)
                if r:
                    raise Violation(ID, "return-stored-wrong", f"schedule {si}: return_stored collection {pi} does not compute to the array: {r}")
        if si == 0:
            nwrites = [t.nwrites for t in ts]
            stats["writes"] = sum(nwrites)
        log.append(["store", si, sched["policy"], [fp(t._a) for t in ts]])
    # write faults
    positions = [(ti, k) for ti, n in enumerate(nwrites[:1] if shared else nwrites) for k in range(n)]
    frng = random.Random(case["fseed"])
    if case["fault_positions"] != "all" and len(positions) > case["fault_positions"]:
        positions = frng.sample(positions, case["fault_positions"])
    elif case["fault_positions"] == "all" and len(positions) > 32:
        # exhaustive up to 32 positions per program; beyond that a seeded sample of 32 (run-time bound)
        stats["probe.fault_positions_sampled"] = stats.get("probe.fault_positions_sampled", 0) + 1
        positions = frng.sample(positions, 32)
    pre = [s_ for s_ in case["schedules"] if s_["policy"] == "preempt"]
    for pi_, (ti, k) in enumerate(positions):
        # every other fault lands while other writes are in flight (error under lock contention)
        sched = pre[0] if (pre and pi_ % 2 == 1) else case["schedules"][0]
        ts = make_targets()
        try:
            do_store(ts, sched, fail=(ti, k))
        except Violation:
            raise
        except Exception:  # noqa: BLE001
            if not ts[ti].faults_fired:
                raise Violation(ID, "store-raises", f"fault run raised before write {k} of target {ti} was attempted")
            stats["fault.write_error"] = stats.get("fault.write_error", 0) + 1
        else:
            if ts[ti].faults_fired:
                raise Violation(ID, "fault-swallowed", f"write {k} to target {ti} raised an injected I/O error but store returned normally")
            continue
        check_fakes(ts, f"write fault at write {k} of target {ti}", faulted=True)
        for pi, (t, (m, cnt)) in enumerate(zip(ts, models(ts))):
            outside = cnt == 0
            if not np.array_equal(t._a[outside], np.full(t.shape, t.sentinel, dtype=t.dtype)[outside]):
                raise Violation(ID, "write-outside-region", f"after a write fault: target {pi} changed outside its region")
            inside = ~outside
            with np.errstate(all="ignore"):
                ok = (t._a == m) | ((t._a != t._a) & (m != m)) | (t._a == np.asarray(t.sentinel, dtype=t.dtype))
            if not ok[inside].all():
                raise Violation(ID, "torn-target", f"after a write fault: target {pi} holds a value that is neither the sentinel nor the final value")
        # fault-free re-run on the same targets completes to the full correct contents
        try:
            do_store(ts, sched)
        except Exception as e:  # noqa: BLE001
            raise Violation(ID, "retry-after-fault-fails", f"re-running the store after a write fault raised {type(e).__name__}: {str(e)[:200]}")
        check_fakes(ts, "retry after write fault")
        for pi, (t, (m, cnt)) in enumerate(zip(ts, models(ts))):
            r = same_value(t._a, m, exact=True)
            if r:
                raise Violation(ID, "retry-after-fault-wrong", f"after a write fault and a re-run, target {pi} is wrong: {r}")
        log.append(["fault", ti, k])
    stats["probe.lock_acquisitions"] = sum(lk.acquisitions for lk in fakes._LOCKS.values())


def run_npy(case, env, x, val, stats, log):
    import dask
    import dask_array as da

    axis = case["axis"] % x.ndim
    scratch = tempfile.mkdtemp(prefix="verif-npy-", dir="/tmp")
    real_save = np.save
    state = {"n": 0, "fail_at": None, "fired": 0}

    def save(path, arr, *a, **k):
        i = state["n"]
        state["n"] += 1
        if state["fail_at"] is not None and i == state["fail_at"]:
            state["fired"] += 1
            raise fakes.InjectedIOError(f"injected np.save failure at file {i}")
        return real_save(path, arr, *a, **k)

    def write(dirname, sched, fail=None):
        state.update(n=0, fail_at=fail, fired=0)
        sim = _sim(sched, stats)
        np.save = save
        try:
            with dask.config.set(scheduler=sim), warnings.catch_warnings():
                warnings.simplefilter("ignore")
                da.to_npy_stack(dirname, x, axis=axis)
        finally:
            np.save = real_save
        stats["steps"] = stats.get("steps", 0) + sim.steps

    def read_back(dirname, sched):
        y = da.from_npy_stack(dirname)
        sim = _sim(sched, stats)
        with warnings.catch_warnings():
            warnings.simplefilter("ignore")
            return y, np.asarray(y.compute(scheduler=sim))

    try:
        for si, sched in enumerate(case["schedules"]):
            d = os.path.join(scratch, f"s{si}")
            try:
                write(d, sched)
            except Violation:
                raise
            except HarnessError:
                raise
            except Exception as e:  # noqa: BLE001
                raise Violation(ID, "npy-stack-raises", f"to_npy_stack raised {type(e).__name__}: {str(e)[:300]}")
            y, got = read_back(d, sched)
            nfiles = state["n"]
            stats["npy_files"] = nfiles
            if y.dtype != x.dtype or tuple(y.shape) != tuple(x.shape):
                raise Violation(ID, "npy-roundtrip-metadata", f"round trip changed shape/dtype: {x.shape}/{x.dtype} -> {y.shape}/{y.dtype}")
            if tuple(y.chunks[axis]) != tuple(x.chunks[axis]):
                raise Violation(ID, "npy-roundtrip-metadata", f"round trip changed chunks along axis {axis}: {x.chunks[axis]} -> {y.chunks[axis]}")
            r = same_value(got, val, exact=True)
            if r:
                raise Violation(ID, "npy-roundtrip-values", f"schedule {si}: from_npy_stack(to_npy_stack(x)) differs from x: {r}")
            log.append(["npy", si, fp(got)])
        # k-th np.save fails: the error propagates; a fault-free re-run into the same directory is complete
        ks = list(range(stats.get("npy_files", 0)))
        frng = random.Random(case["fseed"])
        if case["fault_positions"] != "all" and len(ks) > case["fault_positions"]:
            ks = frng.sample(ks, case["fault_positions"])
        for k in ks:
            d = os.path.join(scratch, f"f{k}")
            try:
                write(d, case["schedules"][0], fail=k)
            except Exception:  # noqa: BLE001
                if not state["fired"]:
                    raise Violation(ID, "npy-stack-raises", "to_npy_stack raised before the injected failure")
                stats["fault.save_error"] = stats.get("fault.save_error", 0) + 1
            else:
                raise Violation(ID, "fault-swallowed", f"np.save of file {k} failed but to_npy_stack returned normally")
            write(d, case["schedules"][0])
            y, got = read_back(d, case["schedules"][0])
            r = same_value(got, val, exact=True)
            if r:
                raise Violation(ID, "retry-after-fault-wrong", f"after a failed np.save and a re-run the stack reads back wrong: {r}")
    finally:
        np.save = real_save
        shutil.rmtree(scratch, ignore_errors=True)


def candidates(case):
    if len(case["schedules"]) > 1:
        yield dict(case, schedules=case["schedules"][:1])
    if case["fault_positions"] != 0:
        yield dict(case, fault_positions=0)
    if len(case["pairs"]) > 1:
        for i in range(len(case["pairs"])):
            yield dict(case, pairs=[case["pairs"][i]])
    if case["return_stored"]:
        yield dict(case, return_stored=False)
    if not case["compute"]:
        yield dict(case, compute=True)
    if case["lock"] is not False:
        yield dict(case, lock=False)
    rec = case["recipe"]
    for i in reversed(range(len(rec["steps"]))):
        r = G.drop_step(rec, i)
        if r is None:
            continue
        new, dead, (victim, repl) = r
        if any(p["src"] == victim or p["src"] in dead for p in case["pairs"]):
            continue
        yield dict(case, recipe=new)
