"""C23 — a random array is one fixed realization (histsim)."""

from __future__ import annotations

import warnings

import numpy as np

from .. import gen as G
from .. import histsim as H
from ..common import Invalid, Violation, fp, same_value
from . import c09

ID = "C23"


def gen(rng, tier):
    ctx = G.Ctx(rng)
    names = sorted(G.OPS)
    ctx.enabled = G.swarm_subset(rng, names, 0.7, always=("random", "from_array", "binary", "getitem", "rechunk"))
    for bad in ("map_overlap", "pad", "topk", "dask_index"):
        if rng.random() < 0.6:
            ctx.enabled.discard(bad)
    ctx.weights = {"random": 8.0, "from_array": 1.0, "creation": 0.5, "binary": 4.0, "getitem": 4.0, "rechunk": 3.0,
                   "transpose": 2.0, "reduction": 3.0, "unary": 3.0}
    ctx.leaf_damp = 0.5
    ctx.n_generators = rng.randint(1, 3)
    ctx.p_array_param = rng.choice([0.0, 0.3, 0.6])
    ctx.p_auto_chunks = 0.1
    ctx.p_random_twin = 0.3
    ctx.p_random_sibling = rng.choice([0.15, 0.5])
    ctx.p_random_auto = rng.choice([0.0, 0.3, 0.6])
    n = rng.randint(3, 10)
    recipe = G.gen_program(ctx, n, n_leaves=rng.randint(1, 3))
    steps = recipe["steps"]
    rand_vars = [s["out"] for s in steps if s["op"] == "random"]
    if not rand_vars:
        raise Invalid("no random array generated")
    # derived = anything downstream of a random var
    down = set(rand_vars)
    for s in steps:
        if any(v in down for v in s["in"]):
            down.add(s["out"])
    derived = [s["out"] for s in steps if s["out"] in down and s["out"] not in rand_vars]
    rng.shuffle(derived)
    targets = rand_vars[:4] + derived[:4]
    hist = gen_history(rng, targets, rand_vars, tier)
    return {"scribble": rng.random() < 0.5, "recipe": recipe, "targets": targets, "rand_vars": rand_vars, "history": hist}


def gen_history(rng, targets, rand_vars, tier):
    hist = []
    n = rng.randint(5, 18 if tier == "quick" else 28)
    built, extra = [], []
    k = [0]
    p_fault = rng.choice([0.1, 0.25, 0.4])
    while len(hist) < n:
        unbuilt = [t for t in targets if t not in built]
        live = built + extra
        if rng.random() < p_fault and live:
            r = rng.random()
            if r < 0.25:
                hist.append({"ev": "gc"})
            elif r < 0.45:
                hist.append({"ev": "evict", "what": rng.choice(["lower", "singleton"])})
            elif r < 0.6:
                hist.append({"ev": "config", "key": "array.optimize-graph", "value": rng.random() < 0.5})
            elif built:
                v = rng.choice(built)
                built.remove(v)
                hist.append({"ev": "drop", "var": v})
                if rng.random() < 0.6:
                    hist.append({"ev": "gc"})
            continue
        r = rng.random()
        if unbuilt and (not live or r < 0.3):
            v = rng.choice(unbuilt)
            built.append(v)
            hist.append({"ev": "build", "var": v})
        elif not live:
            continue
        elif r < 0.38:
            k[0] += 1
            o = f"o{k[0]}"
            hist.append({"ev": "optimize", "var": rng.choice(live), "out": o})
            extra.append(o)
        elif r < 0.46:
            k[0] += 1
            o = f"u{k[0]}"
            hist.append({"ev": "pickle", "var": rng.choice(live), "out": o})
            extra.append(o)
        elif r < 0.5 and built:
            # ship: dump a collection, let go of EVERYTHING alive (so no live node can absorb the copy),
            # collect, load -- possibly where array.chunk-size differs -- and compute the copy
            k[0] += 1
            o = f"l{k[0]}"
            v = rng.choice(live)
            hist.append({"ev": "dump", "var": v, "slot": o})
            for w in list(built) + list(extra):
                hist.append({"ev": "drop", "var": w})
            del built[:]
            del extra[:]
            hist.append({"ev": "gc"})
            cfg = {"array.chunk-size": rng.choice(["8B", "16B", "32B", "64B", "4KiB"])} if rng.random() < 0.6 else None
            hist.append({"ev": "load", "slot": o, "out": o, "config": cfg})
            extra.append(o)
            hist.append(dict({"ev": "compute", "var": o, "entry": "method"}, **H.rand_sched(rng)))
        elif r < 0.52:
            k[0] += 1
            o = f"p{k[0]}"
            hist.append(dict({"ev": "persist", "var": rng.choice(live), "entry": rng.choice(["method", "dask"]), "out": o},
                             **H.rand_sched(rng)))
            extra.append(o)
        elif r < 0.58:
            hist.append({"ev": "graph", "var": rng.choice(live)})
        elif r < 0.64:
            hist.append({"ev": "inspect", "var": rng.choice(live), "acc": rng.sample(H.ACCESSORS, 2)})
        elif r < 0.7 and built:
            hist.append({"ev": "build", "var": rng.choice(built), "force": True})
        elif r < 0.78 and len(live) >= 2:
            hist.append(dict({"ev": "compute_many", "vars": rng.sample(live, 2)}, **H.rand_sched(rng)))
        else:
            hist.append(dict({"ev": "compute", "var": rng.choice(live), "entry": rng.choice(["method", "method", "dask1"])},
                             **H.rand_sched(rng)))
    for v in built:
        hist.append(dict({"ev": "compute", "var": v}, **H.rand_sched(rng)))
    return hist


def shape_of(case, stats):
    return [[(s["op"], s["args"].get("dist"), bool(s["args"].get("array_param"))) for s in case["recipe"]["steps"]],
            [e["ev"] for e in case["history"]]]


def nontrivial(case, stats):
    return stats.get("checked_random", 0) >= 2 or stats.get("checked_derived", 0) >= 1


class SubstEnv:
    """The same recipe with every random array R replaced by from_array(value(R), chunks=R.chunks)."""

    def __init__(self, machine):
        self.m = machine
        self.values = {}  # random var -> (value, chunks)

    def build(self, var):
        import dask_array as da

        recipe = self.m.recipe
        env = G.new_env(recipe)
        env.sources = self.m.env.sources  # same source objects
        need = G.needed_steps(recipe, var)
        for i in need:
            s = recipe["steps"][i]
            if s["op"] == "random":
                if s["out"] not in self.values:
                    return None
                val, chunks = self.values[s["out"]]
                env.vars[s["out"]] = da.from_array(np.asarray(val), chunks=chunks)
            else:
                with warnings.catch_warnings():
                    warnings.simplefilter("ignore")
                    G.apply_step(env, s)
        return env.vars[var]


def execute(case, stats, log):
    m = H.Machine(case, stats, log, ID)
    rand_vars = set(case["rand_vars"])
    m.pristine_phase(case["targets"])
    sub = SubstEnv(m)
    realization = {}  # random program var -> first value observed in this history (per build generation)
    generation = {}
    blobs = {}

    def ensure_realization(rv, i):
        """value(R) of the *currently live* instance of random var rv."""
        if rv in realization:
            return True
        if rv not in m.env.vars:
            return False
        try:
            val = m.compute(m.env.vars[rv], {"policy": "fifo"})
        except Exception:  # noqa: BLE001
            return False
        realization[rv] = val
        sub.values[rv] = (val, m.env.vars[rv].chunks)
        log.append([i, "realize", rv, fp(val)])
        return True

    for i, ev in enumerate(case["history"]):
        var = ev.get("var")
        if ev["ev"] == "compute_many":
            vs = [v for v in ev["vars"] if v in m.pool]
            if not vs:
                continue
            ev = dict(ev, vars=vs)
        elif var is not None and ev["ev"] != "build" and var not in m.pool:
            continue
        org = m.origin.get(var) if var else None
        if ev["ev"] == "dump":
            import cloudpickle

            try:
                blobs[ev["slot"]] = (cloudpickle.dumps(m.pool[var]), org)
            except Exception:  # noqa: BLE001 -- untokenizable pieces: not this check's matter
                pass
            continue
        if ev["ev"] == "load":
            if ev["slot"] not in blobs:
                continue
            import pickle

            import dask

            blob, org0 = blobs[ev["slot"]]
            with dask.config.set(ev.get("config") or {}):
                try:
                    y = pickle.loads(blob)
                    _ = y.chunks, y.name  # first read happens under the receiver's configuration
                except Exception as e:  # noqa: BLE001
                    raise Violation(ID, "unpickled-random-array-broken",
                                    f"event {i}: unpickling {org0} under {ev.get('config')} raised {type(e).__name__}: {str(e)[:200]}", step=i)
            m.pool[ev["out"]] = y
            m.origin[ev["out"]] = org0
            stats["fault.load_after_drop"] = stats.get("fault.load_after_drop", 0) + 1
            log.append([i, "load", ev["out"], str(ev.get("config"))])
            continue
        try:
            out = m.apply(ev)
        except Violation:
            raise
        except Exception as e:  # noqa: BLE001
            if ev["ev"] == "build":
                raise Invalid(f"build raised {type(e).__name__}: {str(e)[:200]}")
            pr = m.pristine.get(org)
            if ev["ev"] == "compute" and str(var).startswith("l") and pr and pr["error"] is None and org in realization:
                raise Violation(ID, "unpickled-random-array-broken",
                                f"event {i}: compute of the unpickled copy {var} of {org} raised {type(e).__name__}: "
                                f"{str(e)[:200]} while the original computed", step=i)
            if pr and pr["error"] is None and ev["ev"] in ("compute", "persist", "optimize", "graph"):
                # an entry point failing is C05/C09's matter unless it is the random node itself
                stats["unclaimed.raised"] = stats.get("unclaimed.raised", 0) + 1
            log.append([i, ev["ev"], var, "raised-ignored"])
            continue
        if ev["ev"] == "build":
            # a forced/regenerated build creates a NEW generator with the same seed: the
            # statement says it must give the same values (clause 3), so realizations persist.
            log.append([i, "build", var, m.nm(out["x"].name)])
            continue
        pairs = []
        if ev["ev"] == "compute":
            pairs = [(var, out["value"])]
        elif ev["ev"] == "compute_many":
            pairs = list(zip(out["vars"], out["values"]))
        for v, val in pairs:
            o = m.origin.get(v)
            log.append([i, "compute", v, fp(val)])
            if o is None:
                continue
            pr = m.pristine.get(o)
            if o in rand_vars:
                stats["checked_random"] = stats.get("checked_random", 0) + 1
                if o in realization:
                    r = same_value(val, realization[o], exact=True)
                    if r:
                        raise Violation(ID, "realization-changed",
                                        f"event {i}: random array {o} (via {v}) computed to different values than its "
                                        f"earlier compute in this process: {r}", step=i)
                else:
                    realization[o] = val
                    if o in m.env.vars:
                        sub.values[o] = (val, m.env.vars[o].chunks)
                if pr and pr["error"] is None:
                    r = same_value(val, pr["value"], exact=True)
                    if r:
                        raise Violation(ID, "rebuild-differs",
                                        f"event {i}: random array {o} differs from the same program (same seed, shape, "
                                        f"chunks) built alone in a pristine process: {r}", step=i)
            else:
                # derived program: must be computed from the same realization
                need = [m.recipe["steps"][j]["out"] for j in G.needed_steps(m.recipe, o)
                        if m.recipe["steps"][j]["op"] == "random"]
                if not need:
                    continue
                if not all(ensure_realization(rv, i) for rv in need):
                    continue
                try:
                    ysub = sub.build(o)
                    if ysub is None:
                        continue
                    expect = m.compute(ysub, {"policy": "fifo"})
                except Violation:
                    raise
                except Exception:  # noqa: BLE001
                    stats["unclaimed.subst_failed"] = stats.get("unclaimed.subst_failed", 0) + 1
                    continue
                stats["checked_derived"] = stats.get("checked_derived", 0) + 1
                r = same_value(val, expect)
                if r:
                    raise Violation(ID, "derived-from-other-realization",
                                    f"event {i}: {v} [program {o}] differs from the same program with its random inputs "
                                    f"{need} replaced by from_array(value(R)): {r}", step=i)
                if pr and pr["error"] is None:
                    r = same_value(val, pr["value"])
                    if r:
                        raise Violation(ID, "rebuild-differs",
                                        f"event {i}: {v} [program {o}] differs from the same program built alone in a "
                                        f"pristine process (same seeds): {r}", step=i)


candidates = c09.candidates
