"""C21 — the Frisky records path computes the same results as the dask graph
(schedsim records executor; every walk order of the shared ``seen`` set per group)."""

from __future__ import annotations

import itertools
import random
import warnings

import numpy as np

from dask._task_spec import TaskRef

from .. import gen as G
from .. import histsim as H
from ..common import HarnessError, Invalid, UnexecutableGraph, Violation, fp, same_value
from ..schedsim import Sim
from . import c09

ID = "C21"


def gen_ragged_fused(rng, tier):
    """Structured scenario: a creation op with many small blocks and ONE odd block, fused (optimize-graph on)
    with elementwise steps and a size-sensitive reduction's chunk stage -- the fused records path bakes block
    shapes into the subgraph after probing a few block positions."""
    nd = rng.choice([1, 1, 2])
    shape, chunks = [], []
    for _ in range(nd):
        nb = rng.randint(4, 7 if nd == 1 else 5)
        base = rng.choice([1, 2])
        row = [base] * nb
        row[rng.randrange(nb)] = 3 - base
        chunks.append(row)
        shape.append(sum(row))
    steps = [{"op": "creation", "in": [], "args": {"kind": rng.choice(["ones", "full", "ones"]), "shape": shape, "chunks": chunks,
                                                  "dtype": rng.choice(["i8", "f8"]), "fill": rng.choice([2, 3, 5])}, "out": "v0"}]
    cur = "v0"
    for _ in range(rng.randint(0, 2)):
        steps.append({"op": "unary", "in": [cur], "args": rng.choice([{"f": "addc", "c": 1}, {"f": "mulc", "c": 2}, {"f": "neg"}, {"f": "square"}]),
                      "out": f"v{len(steps)}"})
        cur = steps[-1]["out"]
    mid = cur
    steps.append({"op": "reduction", "in": [cur], "args": {"f": rng.choice(["sum", "nansum", "mean", "prod", "sum"]),
                                                          "axis": rng.choice([None, 0, nd - 1])}, "out": f"v{len(steps)}"})
    cur = steps[-1]["out"]
    group = [cur] + ([mid] if rng.random() < 0.4 else [])
    extras = [{"kind": "persist", "var": cur, "entry": "method"}] if rng.random() < 0.3 else []
    return {"recipe": {"sources": {}, "generators": {}, "steps": steps}, "group": group, "extras": extras, "resubmit": None,
            "foreign_seen": rng.random() < 0.2, "preempt_seed": rng.getrandbits(32) if rng.random() < 0.3 else None,
            "optimize_graph": rng.random() < 0.85, "exec_seeds": [rng.getrandbits(32) for _ in range(2)], "max_perms": 24}


def gen(rng, tier):
    if rng.random() < 0.06:
        return gen_ragged_fused(rng, tier)
    ctx = G.Ctx(rng)
    names = sorted(G.OPS)
    ctx.enabled = G.swarm_subset(rng, names, 0.75, always=("from_array", "binary", "rechunk", "reduction"))
    ctx.weights = {"random": 0.6, "map_blocks": 1.2, "diag_ops": 2.0}
    ragged_bias = False
    if rng.random() < 0.3:
        # creation ops with ragged explicit chunks fused with elementwise consumers (the fused records path
        # derives block shapes by probing positions of each axis)
        ctx.weights.update({"creation": 4.0, "unary": 5.0, "binary": 4.0, "reduction": 5.0})
        ctx.p_ragged_creation = 0.7
        ctx.enabled |= {"creation", "unary", "reduction"}
        ragged_bias = True
    ctx.enabled.add("diag_ops")
    ctx.p_masked = rng.choice([0.0, 0.05, 0.2])
    ctx.p_simsource = rng.choice([0.0, 0.3])
    ctx.allow_unknown = rng.random() < 0.6
    recipe, targets = c09.gen_programs(rng, ctx, tier, 3, 10)
    k = rng.randint(1, 4)
    group = targets[:k]
    # one member may be an inner node of another, a persisted version, or an optimized version
    extras = []
    if rng.random() < 0.35:
        extras.append({"kind": "persist", "var": rng.choice(group), "entry": rng.choice(["method", "dask"])})
    if rng.random() < 0.2:
        extras.append({"kind": "optimize", "var": rng.choice(group)})
    if rng.random() < 0.2:
        extras.append({"kind": "pickle", "var": rng.choice(group)})
    if rng.random() < 0.15:
        extras.append({"kind": "doptimize", "var": rng.choice(group)})  # dask.optimize(x)[0]: dask's generic driver
    # resubmission: a member that has been submitted once (output keys / records / dask keys read),
    # is then modified in place, and is submitted again with the group
    resubmit = None
    if rng.random() < 0.3:
        from . import c11

        cands = [v for v in group if c11.assignable(ctx.env.vars[v])]
        if cands:
            v = rng.choice(cands)
            ev_ = c11.gen_inplace_event(rng, recipe, v, ctx.env.vars[v], ID)
            if ev_ is not None:
                resubmit = {"var": v, "warm": rng.sample(["frisky_keys", "frisky_graph", "frisky_chunks", "dask_keys", "compute"],
                                                        rng.randint(1, 3)), "event": ev_}
    group_size = len(group) + len(extras)
    while group_size > 4:
        if extras:
            extras.pop()
        else:
            group.pop()
        group_size -= 1
    return {"recipe": recipe, "group": group, "extras": extras, "resubmit": resubmit, "foreign_seen": rng.random() < 0.3,
            # (a real lock -- from_array(lock=True) -- would really block a pre-empted holder's rival)
            "preempt_seed": rng.getrandbits(32) if (rng.random() < 0.5 and not any(
                s_["op"] == "from_array" and s_["args"].get("lock") is True for s_ in recipe["steps"])) else None,
            "optimize_graph": rng.random() < (0.5 if ragged_bias else 0.85), "exec_seeds": [rng.getrandbits(32) for _ in range(2 if tier == "quick" else 4)],
            "max_perms": 24}


def shape_of(case, stats):
    return [[s["op"] for s in case["recipe"]["steps"]], len(case["group"]), [e["kind"] for e in case["extras"]],
            case["foreign_seen"], stats.get("records")]


def nontrivial(case, stats):
    return stats.get("walks_accepted", 0) >= 1 and stats.get("records", 0) >= 3


def resolve(arg, values, declared, key):
    """Frisky's lower_dep_refs: recurse lists/tuples and dict VALUES; resolve TaskRefs."""
    if isinstance(arg, TaskRef):
        k = str(arg.key)
        if k not in declared:
            raise Violation(ID, "undeclared-dependency", f"record {key} references {k} in its arguments but does not list it in deps")
        return values[k]
    if isinstance(arg, list):
        return [resolve(a, values, declared, key) for a in arg]
    if isinstance(arg, tuple):
        return tuple(resolve(a, values, declared, key) for a in arg)
    if isinstance(arg, dict):
        return {k: resolve(v, values, declared, key) for k, v in arg.items()}
    return arg


def check_shape(rec):
    if not (isinstance(rec, tuple) and len(rec) == 5):
        return f"record is not a 5-tuple: {type(rec).__name__} len={len(rec) if hasattr(rec, '__len__') else '?'}"
    key, func, args, kwargs, deps = rec
    if not isinstance(key, str):
        return f"key {key!r} is not a str"
    if not callable(func):
        return f"func of {key} is not callable"
    if not isinstance(args, tuple):
        return f"args of {key} is {type(args).__name__}, not tuple"
    if kwargs is not None and not isinstance(kwargs, dict):
        return f"kwargs of {key} is {type(kwargs).__name__}"
    if not isinstance(deps, list) or not all(isinstance(d, str) for d in deps):
        return f"deps of {key} is not a list of str"
    return None


def execute_records(graph, wanted, rng, stats):
    """Seeded topological execution of {key: record}; ordering uses the declared deps only."""
    waiting = {}
    dependents = {k: [] for k in graph}
    for k in sorted(graph):
        deps = sorted(set(graph[k][4]))
        for d in deps:
            if d not in graph:
                raise Violation(ID, "incomplete-records", f"record {k} depends on {d} which no record produces")
            dependents[d].append(k)
        waiting[k] = len(deps)
    ready = sorted(k for k in graph if waiting[k] == 0)
    values = {}
    done = 0
    while ready:
        i = rng.randrange(len(ready))
        k = ready.pop(i)
        _, func, args, kwargs, deps = graph[k]
        declared = set(deps)
        a = resolve(args, values, declared, k)
        kw = resolve(kwargs or {}, values, declared, k)
        G.fakes.CURRENT["task"] = k
        try:
            values[k] = func(*a, **kw)
        finally:
            G.fakes.CURRENT["task"] = None
        done += 1
        stats["steps"] = stats.get("steps", 0) + 1
        newly = []
        for u in dependents[k]:
            waiting[u] -= 1
            if waiting[u] == 0:
                newly.append(u)
        ready.extend(sorted(newly))
    if done != len(graph):
        raise Violation(ID, "records-cycle", f"{len(graph) - done} records never became runnable (cycle among declared deps)")
    return values


def _preempt_records(graph, members, ref, seed, stats, proto, order_names):
    """Execute the union of records with 2-3 records in flight (baton-passed threads, line-granular
    pre-emption inside dask_array) and compare every output block with the dask graph's value."""
    from dask._task_spec import Task

    from ..preempt import PreemptSim

    def runner(key, func, args, kwargs, deps):
        # one record = one task whose dependencies are the record's DECLARED deps; its arguments are
        # resolved exactly as in the one-at-a-time executor (lists/tuples/dict values, TaskRef slots)
        deps = sorted(set(deps))

        def run(*depvals):
            values = dict(zip(deps, depvals))
            declared = set(deps)
            return func(*resolve(args, values, declared, key), **resolve(kwargs or {}, values, declared, key))

        run.__name__ = getattr(func, "__name__", "record")
        return Task(key, run, *[TaskRef(d) for d in deps])

    g = {k: runner(k, func, args, kwargs, deps) for k, (_, func, args, kwargs, deps) in graph.items()}
    wanted = [k for name, x in members for k in ref[name]]
    sim = PreemptSim(random.Random(seed), inflight=random.Random(seed).choice([2, 3]), yield_p=0.4, monitor_deps=False,
                     prop=ID, stats=stats)
    stats["fault.preempt_runs"] = stats.get("fault.preempt_runs", 0) + 1
    try:
        vals = sim.run(g, wanted)
    except Violation:
        raise
    except HarnessError:
        raise
    except Exception as e:  # noqa: BLE001
        raise Violation(ID, "records-execution-raises",
                        f"{proto} walk {order_names}: executing the records with {sim.inflight} records in flight raised "
                        f"{type(e).__name__}: {str(e)[:300]} while one at a time they compute")
    for (name, x), k, got in zip([(n_, x_) for n_, x_ in members for _ in ref[n_]], wanted, vals):
        r = same_value(got, ref[name][k])
        if r:
            raise Violation(ID, "records-value-differs-concurrently",
                            f"{proto} walk {order_names}: with {sim.inflight} records in flight block {k} of {name} differs "
                            f"from the dask graph's value (one at a time it agrees): {r}")


def execute(case, stats, log):
    import dask

    m = H.Machine(case, stats, log, ID)
    members = []
    try:
        for v in case["group"]:
            m.build(v)
            members.append((v, m.pool[v]))
        for j, e in enumerate(case["extras"]):
            ev = {"persist": {"ev": "persist", "var": e["var"], "entry": e.get("entry", "method"), "out": f"x{j}"},
                  "optimize": {"ev": "optimize", "var": e["var"], "out": f"x{j}"},
                  "pickle": {"ev": "pickle", "var": e["var"], "out": f"x{j}"},
                  "doptimize": {"ev": "doptimize", "var": e["var"], "out": f"x{j}"}}[e["kind"]]
            m.apply(ev)
            members.append((f"x{j}", m.pool[f"x{j}"]))
    except Violation:
        raise
    except Exception as e:  # noqa: BLE001
        raise Invalid(f"group build failed: {type(e).__name__}: {str(e)[:200]}")
    rs = case.get("resubmit")
    if rs and rs["var"] in case["group"]:
        x = m.pool[rs["var"]]
        try:
            with warnings.catch_warnings():
                warnings.simplefilter("ignore")
                for w in rs["warm"]:  # the first submission
                    try:
                        if w == "frisky_keys":
                            x.__frisky_output_keys__()
                        elif w == "frisky_graph":
                            x.__frisky_graph__(set())
                        elif w == "frisky_chunks":
                            x.__frisky_records_chunks__(set())
                        elif w == "dask_keys":
                            x.__dask_keys__()
                        else:
                            m.compute(x, {"policy": "fifo"})
                    except NotImplementedError:
                        pass
                m.apply(rs["event"])
        except Violation:
            raise
        except Exception as e:  # noqa: BLE001
            raise Invalid(f"in-place step rejected: {type(e).__name__}: {str(e)[:200]}")
        stats["fault.inplace_between_submissions"] = 1
    preempted = [False]
    og = case.get("optimize_graph", True)
    # reference block values from the dask graph, one collection at a time
    ref = {}
    with dask.config.set({"array.optimize-graph": og}):
        for name, x in members:
            sim = Sim(random.Random(0), policy="fifo", keep_all=True, prop=ID, stats={})
            try:
                with warnings.catch_warnings():
                    warnings.simplefilter("ignore")
                    keys = list(H._flat(x.__dask_keys__()))
                    g_ = dict(x.__dask_graph__())
                    if len(g_) > 600:
                        raise Invalid(f"graph of {name} too large for this check ({len(g_)} tasks)")
                    sim.run(g_, keys)
            except Invalid:
                raise
            except Exception as e:  # noqa: BLE001
                raise Invalid(f"dask graph of {name} does not execute: {type(e).__name__}: {str(e)[:200]}")
            ref[name] = {str(k): sim.values[k] for k in keys}
        perms = list(itertools.permutations(range(len(members))))
        if len(perms) > case["max_perms"]:
            perms = perms[: case["max_perms"]]
        erng = random.Random(case["exec_seeds"][0])
        for proto in ("graph", "chunks"):
            for perm in perms:
                seen = set()
                if case["foreign_seen"]:
                    seen.add("not-a-real-name-0123456789abcdef")
                if len(members) == 1 and not case["foreign_seen"]:
                    seen = None  # single-collection legacy call: completeness is checked by the callee
                records = []
                declined = None
                for i in perm:
                    name, x = members[i]
                    try:
                        # a fresh lowering per walk would hide what a reused collection does; reuse the member
                        if proto == "graph":
                            recs = x.__frisky_graph__(seen)
                        else:
                            chunks, recs, groups = x.__frisky_records_chunks__(seen)
                            if chunks:
                                raise HarnessError("binary record chunks present: _rust extension unexpectedly available")
                    except NotImplementedError as e:
                        declined = (name, str(e)[:120])
                        break
                    except HarnessError:
                        raise
                    except Violation:
                        raise
                    except Exception as e:  # noqa: BLE001
                        raise Violation(ID, "records-walk-raises",
                                        f"{proto} walk of {name} (order {[members[j][0] for j in perm]}) raised "
                                        f"{type(e).__name__}: {str(e)[:300]} (only NotImplementedError may decline)")
                    records.extend(recs)
                stats["walks"] = stats.get("walks", 0) + 1
                order_names = [members[j][0] for j in perm]
                if declined:
                    stats["walks_declined"] = stats.get("walks_declined", 0) + 1
                    log.append([proto, order_names, "declined", declined[0]])
                    continue
                stats["walks_accepted"] = stats.get("walks_accepted", 0) + 1
                stats["records"] = max(stats.get("records", 0), len(records))
                for r in records:
                    bad = check_shape(r)
                    if bad:
                        raise Violation(ID, "malformed-record", f"{proto} walk {order_names}: {bad}")
                # union: duplicates are legal only if either resolution computes the right values
                first, last = {}, {}
                dup = 0
                for r in records:
                    if r[0] in first:
                        dup += 1
                    first.setdefault(r[0], r)
                    last[r[0]] = r
                stats["probe.duplicate_record_keys"] = stats.get("probe.duplicate_record_keys", 0) + dup
                unions = [first] if not dup else [first, last]
                for ui, graph in enumerate(unions):
                    for name, x in members:
                        try:
                            outs = list(x.__frisky_output_keys__())
                        except NotImplementedError:
                            raise Violation(ID, "inconsistent-decline", f"{name}: records were produced but __frisky_output_keys__ declines")
                        for k in outs:
                            if k not in graph:
                                raise Violation(ID, "output-key-undefined",
                                                f"{proto} walk {order_names}: output key {k} of {name} is defined by no record")
                    for es in case["exec_seeds"]:
                        try:
                            values = execute_records(graph, None, random.Random(es), stats)
                        except Violation as v:
                            v.detail = f"{proto} walk {order_names}: {v.detail}"
                            raise Violation(ID, v.cls, v.detail)
                        except Exception as e:  # noqa: BLE001
                            raise Violation(ID, "records-execution-raises",
                                            f"{proto} walk {order_names}: executing the records raised {type(e).__name__}: "
                                            f"{str(e)[:300]} while the dask graph computes")
                        for name, x in members:
                            for k, want in ref[name].items():
                                r = same_value(values[k], want)
                                if r:
                                    raise Violation(ID, "records-value-differs",
                                                    f"{proto} walk {order_names}: block {k} of {name} differs from the dask "
                                                    f"graph's value: {r}")
                            # the OUTPUT keys are how the consumer finds the results: the i-th output key holds the
                            # i-th block of the collection (flattened __dask_keys__ order, duplicates dropped)
                            outs = list(x.__frisky_output_keys__())
                            dk = list(ref[name])
                            if len(outs) != len(dk):
                                raise Violation(ID, "output-keys-wrong",
                                                f"{proto} walk {order_names}: {name} advertises {len(outs)} output keys for "
                                                f"{len(dk)} blocks")
                            for ko, kd in zip(outs, dk):
                                r = same_value(values[ko], ref[name][kd])
                                if r:
                                    raise Violation(ID, "output-keys-wrong",
                                                    f"{proto} walk {order_names}: output key {ko} of {name} holds another value "
                                                    f"than block {kd} of the dask graph: {r}")
                # the consumer is a multi-threaded worker pool: 2-3 records in flight, pre-empted at Python
                # lines inside dask_array (records of one fused layer share a func object)
                if case.get("preempt_seed") is not None and not preempted[0] and len(first) <= 80:
                    preempted[0] = True
                    _preempt_records(first, members, ref, case["preempt_seed"], stats, proto, order_names)
                log.append([proto, order_names, len(records), dup])
    stats["probe.groups_gt1"] = 1 if len(members) > 1 else 0


def candidates(case):
    if case.get("resubmit"):
        yield dict(case, resubmit=None)
        if len(case["resubmit"]["warm"]) > 1:
            for i in range(len(case["resubmit"]["warm"])):
                w = case["resubmit"]["warm"]
                yield dict(case, resubmit=dict(case["resubmit"], warm=w[:i] + w[i + 1:]))
    if case["extras"]:
        for i in range(len(case["extras"])):
            yield dict(case, extras=case["extras"][:i] + case["extras"][i + 1:])
    if len(case["group"]) > 1:
        for i in range(len(case["group"])):
            yield dict(case, group=case["group"][:i] + case["group"][i + 1:])
    if case["foreign_seen"]:
        yield dict(case, foreign_seen=False)
    rec = case["recipe"]
    for i in reversed(range(len(rec["steps"]))):
        r = G.drop_step(rec, i)
        if r is None:
            continue
        new, dead, (victim, repl) = r
        grp = []
        for t in case["group"]:
            t = repl if t == victim else t
            if t is not None and t not in dead and t not in grp:
                grp.append(t)
        if not grp:
            continue
        ex = [e for e in case["extras"] if (repl if e["var"] == victim else e["var"]) in grp]
        ex = [dict(e, var=(repl if e["var"] == victim else e["var"])) for e in ex]
        rs = case.get("resubmit")
        if rs and (rs["var"] not in grp or rs["var"] == victim or rs["var"] in dead):
            rs = None
        yield dict(case, recipe=new, group=grp, extras=ex, resubmit=rs)


# --------------------------------------------------------------------------- known finding F33


def _pre_f33(case, result):
    return any(e["kind"] == "doptimize" for e in case.get("extras", []))


def _abl_f33(case):
    """The same group with every dask.optimize(x)[0] member replaced by x.optimize()."""
    return dict(case, extras=[dict(e, kind="optimize") if e["kind"] == "doptimize" else e for e in case["extras"]])


def _pre_f2b(case, result):
    return any(e["kind"] == "persist" and e.get("entry") == "dask" for e in case.get("extras", []))


def _abl_f2b(case):
    """The same group with every dask.persist(x) member replaced by x.persist()."""
    return dict(case, extras=[dict(e, entry="method") if e["kind"] == "persist" else e for e in case["extras"]])


FINDING_ABLATIONS = {
    "F33": (_pre_f33, _abl_f33),
    "F2b": (_pre_f2b, _abl_f2b),
}
